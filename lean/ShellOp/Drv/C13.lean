import ShellOp.Util
import ShellOp.Model.Patch
/-! Line-protocol suite for C13 (patch file). Core-only.

Tokens (no blanks inside):
* value `s5` / `i5`; object `1=s5+2=i7` or `-`; cluster `3:1=s5;4:-` or `-` (sorted);
* op `C/<ign><upd>/bad`, `C/<ign><upd>/<key>/<gvr>/<obj>`, `D/<fg|bg|or>/<key>/<gvr>/<sub>`,
  `P/<m|j|q>/<key>/<gvr>/<sub>/<im><ihe>/<body>`; body `none`, `?` (opaque jq closure) or edits
  `set.1.s5+del.2+rep.1.i3+rem.1`; op list joined by `;`, `-` when empty;
* action `create.3.0`; log joined by `;`.
-/
namespace ShellOp.Drv.C13
open ShellOp ShellOp.Util ShellOp.Patch

structure S where
  cluster : Cluster := []
  docs : List Doc := []          -- as the code sees them (after the typed decoders)
  raw : List RawDoc := []        -- as written (with the unknown-keys flag)
  garbled : Bool := false
  writers : Writers := []        -- the history of the other clients (see `Model/Patch`, histories)

def sortA {β : Type} (l : List (Nat × β)) : List (Nat × β) := l.mergeSort (fun a b => a.1 ≤ b.1)

def showV : V → String
  | .s n => s!"s{n}"
  | .i n => s!"i{n}"

def showObj (o : Obj) : String :=
  if o.isEmpty then "-" else String.intercalate "+" ((sortA o).map (fun p => s!"{p.1}={showV p.2}"))

def showCluster (c : Cluster) : String :=
  if c.isEmpty then "-" else String.intercalate ";" ((sortA c).map (fun p => s!"{p.1}:{showObj p.2}"))

def showVerb : Verb → String
  | .create => "create" | .get => "get" | .update => "update" | .delete => "delete"
  | .patchMerge => "patchMerge" | .patchJson => "patchJson"

def showLog (l : List Action) : String :=
  if l.isEmpty then "-" else String.intercalate ";" (l.map (fun a => s!"{showVerb a.verb}.{a.key}.{a.sub}"))

def b01 (b : Bool) : String := if b then "1" else "0"

def showEdit : Edit → String
  | .set f v => s!"set.{f}.{showV v}"
  | .del f => s!"del.{f}"
  | .replace f v => s!"rep.{f}.{showV v}"
  | .remove f => s!"rem.{f}"

def showBody (jqOpaque : Bool) (kind : PatchKind) : Option Body → String
  | none => if jqOpaque && kind == .jq then "?" else "none"
  | some b =>
    if jqOpaque && kind == .jq then "?"
    else if b.isEmpty then "-" else String.intercalate "+" (b.map showEdit)

/-- Descriptor of an operation; the number representation is NOT printed (descriptors are compared
modulo number types), a jq program is printed as `?` when `jqOpaque` (it sits in a closure). -/
def showOp (jqOpaque : Bool) : Op → String
  | .create ign upd .bad => s!"C/{b01 ign}{b01 upd}/bad"
  | .create ign upd (.good k g o _) => s!"C/{b01 ign}{b01 upd}/{k}/{b01 g}/{showObj o}"
  | .delete p k g s =>
    let ps := match p with | .foreground => "fg" | .background => "bg" | .orphan => "or"
    s!"D/{ps}/{k}/{b01 g}/{s}"
  | .patch kind k g s im ihe body =>
    let ks := match kind with | .merge => "m" | .json => "j" | .jq => "q"
    s!"P/{ks}/{k}/{b01 g}/{s}/{b01 im}{b01 ihe}/{showBody jqOpaque kind body}"

def showOps (jqOpaque : Bool) (l : List Op) : String :=
  if l.isEmpty then "-" else String.intercalate ";" (l.map (showOp jqOpaque))

/-! parsing -/

def bool? : String → Option Bool
  | "0" => some false | "1" => some true | _ => none

def v? (s : String) : Option V :=
  if s.startsWith "s" then (s.drop 1).toString.toNat?.map V.s
  else if s.startsWith "i" then (s.drop 1).toString.toNat?.map V.i
  else none

def obj? (s : String) : Option Obj :=
  if s == "-" then some [] else
  (s.splitOn "+").mapM (fun fv => match fv.splitOn "=" with
    | [f, v] => do some ((← f.toNat?), (← v? v))
    | _ => none)

def cluster? (s : String) : Option Cluster :=
  if s == "-" then some [] else
  (s.splitOn ";").mapM (fun kv => match kv.splitOn ":" with
    | [k, o] => do some ((← k.toNat?), (← obj? o))
    | _ => none)

def edit? (s : String) : Option Edit :=
  match s.splitOn "." with
  | ["set", f, v] => do some (.set (← f.toNat?) (← v? v))
  | ["del", f] => f.toNat?.map .del
  | ["rep", f, v] => do some (.replace (← f.toNat?) (← v? v))
  | ["rem", f] => f.toNat?.map .remove
  | _ => none

def body? (s : String) : Option (Option Body) :=
  if s == "none" then some none
  else if s == "-" then some (some [])
  else ((s.splitOn "+").mapM edit?).map some

def flags2? (s : String) : Option (Bool × Bool) :=
  match s.toList with
  | [a, b] => do some ((← bool? (String.singleton a)), (← bool? (String.singleton b)))
  | _ => none

def op? (s : String) : Option Op :=
  match s.splitOn "/" with
  | ["C", fl, "bad"] => do let (i, u) ← flags2? fl; some (.create i u .bad)
  | ["C", fl, k, g, o] => do
    let (i, u) ← flags2? fl
    some (.create i u (.good (← k.toNat?) (← bool? g) (← obj? o) .f64))
  | ["D", p, k, g, sub] => do
    let p ← match p with
      | "fg" => some Propagation.foreground | "bg" => some .background | "or" => some .orphan | _ => none
    some (.delete p (← k.toNat?) (← bool? g) (← sub.toNat?))
  | ["P", kd, k, g, sub, fl, b] => do
    let kd ← match kd with
      | "m" => some PatchKind.merge | "j" => some .json | "q" => some .jq | _ => none
    let (im, ihe) ← flags2? fl
    some (.patch kd (← k.toNat?) (← bool? g) (← sub.toNat?) im ihe (← body? b))
  | _ => none

/-- `3:set.1.s5+del.2;3:set.2.s1` or `-`: changes of other writers, per object, in landing order. -/
def writers? (s : String) : Option Writers :=
  if s == "-" then some [] else
  (s.splitOn ";").mapM (fun kb => match kb.splitOn ":" with
    | [k, b] => do
      let b ← (b.splitOn "+").mapM edit?
      if b.all (fun e => match e with | .set _ _ => true | .del _ => true | _ => false) then
        some ((← k.toNat?), b)
      else none
    | _ => none)

def form? : String → Option Form
  | "json" => some .json | "yaml" => some .yaml | _ => none

/-- The stream as the (repaired) decoders deliver it: a syntax error or an unknown key = no stream. -/
def stream (st : S) : Stream := if st.garbled then .garbled else Stream.ofRaw st.raw

/-- The interned subresource "/status" (index in the harness's `c13Subs`). -/
def statusSub : Sub := 2

/-- The repaired code normalises (see `Model/Patch`). -/
def nz : Bool := true

/-- Documents with their validity as documented (the spec side of the oracles). -/
def documented (st : S) : List Doc := st.raw.map (fun r => { r.doc with valid := r.documentedValid })

def anyInvalid (st : S) : Bool := st.garbled || (documented st).any (fun d => !d.valid)

def step (st : S) (toks : List String) : S × String :=
  match toks with
  | "note" :: _ => (st, "ok")     -- the concrete rendering, carried along for the replay file
  | ["init", c] =>
    match cluster? c with
    | some c => ({ st with cluster := c }, s!"cluster={showCluster c}")
    | none => (st, "bad-op")
  | ["garbled", g] =>
    match bool? g with
    | some g => ({ st with garbled := g }, "ok")
    | none => (st, "bad-op")
  | ["writers", w] =>
    match writers? w with
    | some w => ({ st with writers := w }, "ok")
    | none => (st, "bad-op")
  | ["doc", v, inl, o] =>
    match bool? v, bool? inl, op? o with
    | some v, some inl, some o =>
      ({ st with docs := st.docs ++ [⟨v, o, inl⟩], raw := st.raw ++ [⟨⟨v, o, inl⟩, false⟩] }, "ok")
    | _, _, _ => (st, "bad-op")
  | ["doc", v, inl, o, "x"] =>      -- the document carries an unknown key
    match bool? v, bool? inl, op? o with
    | some v, some inl, some o =>
      ({ st with docs := st.docs ++ [⟨v, o, inl⟩], raw := st.raw ++ [⟨⟨v, o, inl⟩, true⟩] }, "ok")
    | _, _, _ => (st, "bad-op")
  | ["parse", f] =>
    match form? f with
    | none => (st, "bad-op")
    | some f =>
      let (ops, err) := parse nz f (stream st)
      (st, if err then "err" else s!"ok ops={showOps true ops}")
  | ["exec", f] =>
    match form? f with
    | none => (st, "bad-op")
    | some f =>
      let r := handleH concretePf nz f (stream st) ⟨st.cluster, []⟩ st.writers
      (st, if r.executed then
          s!"done fail={b01 r.failed} nerr={r.nerr} panic={b01 r.panicked} log={showLog r.st.log} cluster={showCluster r.st.cluster}"
        else s!"skipped fail={b01 r.failed} cluster={showCluster r.st.cluster}")
  | "oracle" :: "parse" :: rest =>
    -- the property: an error iff the stream is garbled or some document is invalid; otherwise
    -- exactly one operation per document, in document order, with the documented descriptor
    match (kv? "err" rest).bind bool?, kv? "ops" rest with
    | some err, some ops =>
      let wantErr := anyInvalid st
      let wantOps := showOps true (st.docs.map (·.op))
      if err != wantErr then (st, s!"false want-err={b01 wantErr}")
      else if !err && ops != wantOps then (st, s!"false want-ops={wantOps}")
      else (st, "true")
    | _, _ => (st, "bad-op")
  | "oracle" :: "exec" :: rest =>
    -- the property: Spec.expectedH (nothing applied and failure if anything is invalid; otherwise
    -- every operation once, in order, with its documented effect and API calls; an operation that
    -- writes under the optimistic lock has its documented effect on the object AS IT IS WHEN ITS
    -- UPDATE SUCCEEDS - the changes other writers made in between survive)
    match (kv? "executed" rest).bind bool?, (kv? "fail" rest).bind bool?, kv? "log" rest, kv? "cluster" rest with
    | some ex, some fail, some lg, some cl =>
      let (wf, we, wc, wl) := Spec.expectedH concretePf st.garbled (documented st) st.cluster st.writers
      let want := s!"executed={b01 we} fail={b01 wf} log={showLog wl} cluster={showCluster wc}"
      if ex == we && fail == wf && lg == showLog wl && cl == showCluster wc then (st, "true")
      else (st, "false want " ++ want)
    | _, _, _, _ => (st, "bad-op")
  | ["reset"] => ({}, "ok")        -- the next execution of the same case (operator-level cases)
  | ["next"] =>
    -- the next execution on the same cluster and the same ObjectPatcher: it starts from the state the
    -- documented semantics give for the executions so far (`Spec.runs`), with a new patch file
    let (_, _, wc, _) := Spec.expectedH concretePf st.garbled (documented st) st.cluster st.writers
    ({ cluster := wc }, "ok")
  | ["hookrun", f, ok] =>
    -- one execution through taskHandler -> handleRunHook -> Hook.Run (the pinned Run hands over no
    -- bytes of a failed process: `runBytes false`)
    match form? f, bool? ok with
    | some f, some ok =>
      let r := handleRun concretePf nz f statusSub ok (runBytes false ok (stream st)) ⟨st.cluster, []⟩ st.writers
      (st, s!"status={if r.failed then "Fail" else "Success"} log={showLog r.st.log} cluster={showCluster r.st.cluster}")
    | _, _ => (st, "bad-op")
  | "oracle" :: "hookrun" :: rest =>
    -- the property for one execution of a hook (Spec.acceptRun): a successful hook: validated as a
    -- whole, applied once each in order; a failed hook: the execution fails, nothing is applied if any
    -- document is invalid, otherwise nothing or exactly the on-hook-error operations once each in order
    match (kv? "hookok" rest).bind bool?, (kv? "fail" rest).bind bool?, kv? "log" rest, kv? "cluster" rest with
    | some ok, some fail, some lg, some cl =>
      if Spec.acceptRun (fun c l => (showCluster c, showLog l)) concretePf statusSub st.garbled (documented st)
          st.cluster st.writers ok (fail, (cl, lg)) then (st, "true")
      else
        let (wf, _, wc, wl) := Spec.expectedH concretePf st.garbled (documented st) st.cluster st.writers
        if ok then (st, s!"false want fail={b01 wf} log={showLog wl} cluster={showCluster wc}")
        else if anyInvalid st then (st, s!"false want fail=1 log=- cluster={showCluster st.cluster} (an invalid document: nothing may be applied)")
        else (st, "false want fail=1 and nothing or exactly the on-hook-error operations applied")
    | _, _, _, _ => (st, "bad-op")
  | "oracle" :: "agree" :: rest =>
    -- the property's last sentence, on what the implementation showed for the two renderings
    match kv? "json" rest, kv? "yaml" rest with
    | some j, some y => if j == y then (st, "true") else (st, "false json-and-yaml-differ")
    | _, _ => (st, "bad-op")
  | _ => (st, "bad-op")

def suite : Suite S := { init := {}, step := step }

end ShellOp.Drv.C13
