import ShellOp.Util
import ShellOp.Model.RateLimit
/-! Line-protocol suite for C18 (execution rate limit). Core-only. -/
namespace ShellOp.Drv.C18
open ShellOp ShellOp.Util ShellOp.RateLimit

structure St where
  lim : Lim := createRateLimiter none
  s : LState := init (createRateLimiter none)
  /-- the hooks of one hooks directory (`hookset` / `hookload`): their limiters and limiter states -/
  lims : List Lim := []
  ss : List LState := []

def optInt? (key : String) (toks : List String) : Option (Option Int) :=
  match kv? key toks with
  | none => none
  | some "-" => some none
  | some v => (int? v).map some

def intList? (s : String) : Option (List Int) :=
  if s == "-" || s == "" then some [] else (s.splitOn ",").mapM int?

def bindKind? : String → Option BindKind
  | "onStartup" => some .onStartup
  | "schedule" => some .schedule
  | "kubernetes" => some .kubernetes
  | "validating" => some .validating
  | "mutating" => some .mutating
  | "conversion" => some .conversion
  | _ => none

def bindKinds? (s : String) : Option (List BindKind) :=
  if s == "-" || s == "" then some [] else (s.splitOn "+").mapM bindKind?

def step (st : St) (toks : List String) : St × String :=
  match toks with
  | "settings" :: rest =>
    -- `i=- b=-` = no settings block; otherwise (interval ns, burst), an absent one is Go's zero value
    match optInt? "i" rest, optInt? "b" rest with
    | some i, some b =>
      let settings : Option (Int × Int) :=
        match i, b with
        | none, none => none
        | _, _ => some (i.getD 0, b.getD 0)
      let l := createRateLimiter settings
      ({ lim := l, s := init l }, s!"inf={if l.inf then 1 else 0} I={if l.inf then 0 else l.I} B={l.B}")
    | _, _ => (st, "bad-op")
  | "hookcfg" :: rest =>
    -- a hook configuration (settings + the kinds of its bindings) through `Hook.LoadConfig`: the hook's limiter
    match optInt? "i" rest, optInt? "b" rest, (kv? "binds" rest).bind bindKinds? with
    | some i, some b, some ks =>
      let settings : Option (Int × Int) :=
        match i, b with
        | none, none => none
        | _, _ => some (i.getD 0, b.getD 0)
      let l := hookLimiter { settings := settings, bindings := ks }
      ({ lim := l, s := init l }, s!"inf={if l.inf then 1 else 0} I={if l.inf then 0 else l.I} B={l.B}")
    | _, _, _ => (st, "bad-op")
  | "hookcfg-after" :: rest =>
    -- at the end of a run the hook's limiter is still the one `Hook.LoadConfig` built (nothing re-tunes it)
    match optInt? "i" rest, optInt? "b" rest, (kv? "binds" rest).bind bindKinds? with
    | some i, some b, some ks =>
      let settings : Option (Int × Int) :=
        match i, b with
        | none, none => none
        | _, _ => some (i.getD 0, b.getD 0)
      let l := hookLimiter { settings := settings, bindings := ks }
      (st, s!"inf={if l.inf then 1 else 0} I={if l.inf then 0 else l.I} B={l.B}")
    | _, _, _ => (st, "bad-op")
  | ["hookset", n] =>
    -- a hooks directory with n executables: the manager loads every one of them
    match (kv? "n" [n]).bind String.toNat? with
    | some k => ({ st with lims := [], ss := [] }, s!"loaded={k}")
    | none => (st, "bad-op")
  | "hookload" :: rest =>
    -- the next hook of the directory (`Manager.loadHook`): its limiter comes from ITS settings, whatever its name
    match (kv? "h" rest).bind String.toNat?, kv? "name" rest, optInt? "i" rest, optInt? "b" rest with
    | some h, some name, some i, some b =>
      if h != st.lims.length then (st, "bad-op") else
      let settings : Option (Int × Int) :=
        match i, b with
        | none, none => none
        | _, _ => some (i.getD 0, b.getD 0)
      let l := (loadHooks [(name, { settings := settings, bindings := [.onStartup] })]).headD (createRateLimiter none)
      ({ st with lims := st.lims ++ [l], ss := st.ss ++ [init l] },
        s!"inf={if l.inf then 1 else 0} I={if l.inf then 0 else l.I} B={l.B}")
    | _, _, _, _ => (st, "bad-op")
  | "hreq" :: rest =>
    -- a request on the limiter of hook h of the directory
    match (kv? "h" rest).bind String.toNat?, (kv? "t" rest).bind int?, kv? "delay" rest with
    | some h, some t, some d =>
      if h ≥ st.lims.length then (st, "bad-op") else
      let (ss', g) := reserveAt st.lims st.ss h t
      let st' := { st with ss := ss' }
      match g, d with
      | none, "refused" => (st', "ok")
      | some g, d =>
        match int? d with
        | some di =>
          let diff := (g - t) - di
          if -1000 ≤ diff ∧ diff ≤ 1000 then (st', "ok") else (st', s!"differs model-delay={g - t}")
        | none => (st', s!"differs model-delay={g - t}")
      | none, _ => (st', "differs model=refused")
    | _, _, _ => (st, "bad-op")
  | ["operator-webhooks", n] =>
    -- every admission request is answered (allowed) after exactly one execution of its hook
    match (kv? "sent" [n]).bind String.toNat? with
    | some k => (st, s!"answered={k} executed={k}")
    | none => (st, "bad-op")
  | "req" :: rest =>
    match (kv? "t" rest).bind int?, kv? "delay" rest with
    | some t, some d =>
      let (s', g) := reserve st.lim st.s t
      let st' := { st with s := s' }
      match g, d with
      | none, "refused" => (st', "ok")
      | some g, d =>
        match int? d with
        | some di =>
          let diff := (g - t) - di
          if -1000 ≤ diff ∧ diff ≤ 1000 then (st', "ok") else (st', s!"differs model-delay={g - t}")
        | none => (st', s!"differs model-delay={g - t}")
      | none, _ => (st', "differs model=refused")
    | _, _ => (st, "bad-op")
  | ["oracle", "bound", i, b, starts] =>
    -- the property on the observed start times, for the configured I and B
    match (kv? "I" [i]).bind int?, (kv? "B" [b]).bind int?, (kv? "starts" [starts]).bind intList? with
    | some i, some b, some gs =>
      if i ≤ 0 || b < 1 then (st, "bad-op")
      else if Spec.boundOK i b gs then (st, "true") else (st, "false more than B+ceil(T/I) starts in some window")
    | _, _, _ => (st, "bad-op")
  | ["oracle", "boundskew", i, b, reqs, starts] =>
    -- request times that went backwards: the bound with the window stretched by the backward steps
    match (kv? "I" [i]).bind int?, (kv? "B" [b]).bind int?, (kv? "reqs" [reqs]).bind intList?,
          (kv? "starts" [starts]).bind intList? with
    | some i, some b, some r, some gs =>
      if i ≤ 0 || b < 1 then (st, "bad-op")
      else if Spec.boundOKSkew i b (Spec.backSteps 0 r) gs then (st, "true")
      else (st, "false more than B+ceil((T+S)/I) starts in some window")
    | _, _, _, _ => (st, "bad-op")
  | ["oracle", "boundiv", i, b, sk, lo, hi] =>
    -- every execution is known to have been granted inside [lo_k, hi_k] (queued-at / previous start
    -- of the same queue .. start time written by the hook process): the bound on every window;
    -- S = allowance for clock-read skew between queues (0 for a single queue)
    match (kv? "I" [i]).bind int?, (kv? "B" [b]).bind int?, (kv? "S" [sk]).bind int?,
          (kv? "lo" [lo]).bind intList?, (kv? "hi" [hi]).bind intList? with
    | some i, some b, some sk, some los, some his =>
      if i ≤ 0 || b < 1 || sk < 0 || los.length != his.length then (st, "bad-op")
      else if Spec.boundOKIv i b sk (los.zip his) then (st, "true")
      else (st, "false more than B+ceil((T+S)/I) executions certainly granted inside some window")
    | _, _, _, _, _ => (st, "bad-op")
  | ["operator-queues", n] =>
    -- all queues drain and every binding that got events is executed until it succeeds
    match (kv? "events" [n]).bind String.toNat? with
    | some _ => (st, "drained")
    | none => (st, "bad-op")
  | ["operator-series", n] =>
    -- long combined series: all queues drain and the binding contexts given to the executions are
    -- exactly the events that were queued (combined, never dropped, never delivered twice)
    match (kv? "events" [n]).bind String.toNat? with
    | some k => (st, s!"delivered={k}")
    | none => (st, "bad-op")
  | ["operator-long", n] =>
    -- long interval: the run is abandoned while tasks wait for their tokens
    match (kv? "events" [n]).bind String.toNat? with
    | some _ => (st, "running")
    | none => (st, "bad-op")
  | ["operator-startup", n] =>
    -- start-up on a cluster: every kubernetes binding without a group that is executed on Synchronization
    -- gets exactly one Synchronization execution, the others none, and the main queue drains
    match (kv? "binds" [n]).bind String.toNat? with
    | some _ => (st, "synced")
    | none => (st, "bad-op")
  | ["oracle", "nodelay", reqs, starts] =>
    -- hooks without settings are not throttled: every execution starts at its request time
    match (kv? "reqs" [reqs]).bind intList?, (kv? "starts" [starts]).bind intList? with
    | some r, some s => if r == s then (st, "true") else (st, "false delayed")
    | _, _ => (st, "bad-op")
  | ["operator-run", n] =>
    -- every queued HookRun task is executed exactly once (after its Wait): the model's answer is the count asked for
    match (kv? "expect" [n]).bind String.toNat? with
    | some k => (st, s!"executions={k}")
    | none => (st, "bad-op")
  | _ => (st, "bad-op")

def suite : Suite St := { init := {}, step := step }

end ShellOp.Drv.C18
