import ShellOp.Util
import ShellOp.Model.ShellFw
/-! Line-protocol suite for C19 (shell framework dispatch). Core-only. -/
namespace ShellOp.Drv.C19
open ShellOp ShellOp.Util ShellOp.ShellFw

structure St where
  defined : List String := []
  failIdx : List Nat := []
  failNames : List String := []
  ctxs : List Ctx := []
  acts : List (String × String) := []
  stdin : List String := []

def St.env (st : St) : Env :=
  { defined := fun n => st.defined.contains n
    fails := fun i h => st.failIdx.contains i || st.failNames.contains h
    reads := fun h => match st.acts.lookup h with
      | some "read" => .line
      | some "cat" => .all
      | _ => .none }

/-- `name=act` (the name may contain anything but `,` and blanks; the act is the part after the last `=`). -/
def parseAct (s : String) : Option (String × String) :=
  match (s.splitOn "=").reverse with
  | act :: (n :: ns) => some (String.intercalate "=" (n :: ns).reverse, act)
  | _ => none

/-- What a handler logs about its standard input: `-` not read, `eof`, `l:<line>`, `a:<line>+<line>+…`. -/
def showSeen (u : StdinUse) : Option (List String) → String
  | none => "-"
  | some ls =>
    match u with
    | .all => "a:" ++ String.join (ls.map (· ++ "+"))
    | _ => match ls with
      | [] => "eof"
      | l :: _ => "l:" ++ l

def optArg (key : String) (toks : List String) : Option String :=
  match kv? key toks with
  | none => none
  | some "-" => none
  | some v => some v

def showLog (l : List (Nat × String)) : String :=
  if l.isEmpty then "-" else String.intercalate "," (l.map fun (i, h) => s!"{i}:{h}")

def parseLog (s : String) : Option (List (Nat × String)) :=
  (strList s).mapM fun e =>
    match e.splitOn ":" with
    | i :: rest@(_ :: _) => i.toNat?.map fun n => (n, String.intercalate ":" rest)
    | _ => none

def showResult (r : Result) : String :=
  s!"log={showLog r.log} config={if r.config then 1 else 0} ok={if r.ok then 1 else 0}"

def bit? : Option String → Option Bool
  | some "1" => some true
  | some "0" => some false
  | _ => none

def step (st : St) (toks : List String) : St × String :=
  match toks with
  | ["def", names] => ({ st with defined := strList names }, "ok")
  | ["failidx", l] =>
    match natList? l with
    | some l => ({ st with failIdx := l }, "ok")
    | none => (st, "bad-op")
  | ["failnames", names] => ({ st with failNames := strList names }, "ok")
  | "ctx" :: rest =>
    let c : Ctx := { binding := optArg "b" rest, type := optArg "t" rest, watchEvent := optArg "w" rest,
                     groupName := optArg "g" rest, fromVersion := (optArg "from" rest).getD "",
                     toVersion := (optArg "to" rest).getD "" }
    -- the answer: what `hook::_get_possible_handler_names` prints for this context
    let ans := match possibleHandlerNames c with
      | none => "abort"
      | some l => "cands=" ++ showStrs l
    ({ st with ctxs := st.ctxs ++ [c] }, ans)
  | ["acts", l] =>
    match (strList l).mapM parseAct with
    | some as => ({ st with acts := as }, "ok")
    | none => (st, "bad-op")
  | ["stdin", l] => ({ st with stdin := strList l }, "ok")
  | "run" :: args =>
    let (r, seen) := hookRunIO st.env args st.stdin st.ctxs
    let uses := r.log.map fun (_, h) => st.env.reads h
    (st, showResult r ++ " in=" ++ showStrs ((uses.zip seen).map fun (u, s) => showSeen u s))
  | "oracle" :: "run" :: rest =>
    -- the property itself on what the implementation showed (documented names, not the table)
    match (kv? "log" rest).bind parseLog, bit? (kv? "config" rest), bit? (kv? "ok" rest), kv? "args" rest with
    | some log, some config, some ok, some args =>
      if st.ctxs.all (fun c => decide (Spec.wellFormed c)) then
        let r : Result := { log := log, config := config, ok := ok }
        if Spec.holds st.env (strList args) st.ctxs r then (st, "true")
        else
          let want := st.ctxs.map fun c => (Spec.chosen st.env c).getD "<none>"
          (st, s!"false chosen-per-context={showStrs want}")
      else (st, "bad-op")
    | _, _, _, _ => (st, "bad-op")
  | _ => (st, "bad-op")

def suite : Suite St := { init := {}, step := step }

end ShellOp.Drv.C19
