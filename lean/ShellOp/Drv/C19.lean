import ShellOp.Util
import ShellOp.Model.ShellFw
/-! Line-protocol suite for C19 (shell framework dispatch). Core-only. -/
namespace ShellOp.Drv.C19
open ShellOp ShellOp.Util ShellOp.ShellFw

structure St where
  defined : List String := []
  failIdx : List Nat := []
  failNames : List String := []
  ctxs : List Ctx := []
  acts : List (String × String) := []
  stdin : List String := []
  looks : List (String × String) := []
  inherit : Option Nat := none
  layout : String := "first"
  hookEnv : List String := []

def St.env (st : St) : Env :=
  { defined := fun n => st.defined.contains n
    fails := fun i h => st.failIdx.contains i || st.failNames.contains h
    reads := fun h => match st.acts.lookup h with
      | some "read" => .line
      | some "cat" => .all
      | _ => .none }

/-- `name=act` (the name may contain anything but `,` and blanks; the act is the part after the last `=`). -/
def parseAct (s : String) : Option (String × String) :=
  match (s.splitOn "=").reverse with
  | act :: (n :: ns) => some (String.intercalate "=" (n :: ns).reverse, act)
  | _ => none

/-- What a handler logs about its standard input: `-` not read, `eof`, `l:<line>`, `a:<line>+<line>+…`. -/
def showSeen (u : StdinUse) : Option (List String) → String
  | none => "-"
  | some ls =>
    match u with
    | .all => "a:" ++ String.join (ls.map (· ++ "+"))
    | _ => match ls with
      | [] => "eof"
      | l :: _ => "l:" ++ l

/-- `looks` entries are `name=<class>:<mode>`, class `exec` = a new program, else the handler's shell or a fork. -/
def St.lookOf (st : St) (h : String) : Look :=
  match st.looks.lookup h with
  | some m => if m.startsWith "exec:" then .exec else .shell
  | none => .shell

def showU : Option Nat → String
  | some n => toString n
  | none => "u"

def parseOptNat (s : String) : Option (Option Nat) :=
  if s == "u" then some none else s.toNat?.map some

/-- `j:idx/ctx` -/
def parseCur (s : String) : Option (List (Nat × Option Nat × Option Nat)) :=
  (strList s).mapM fun e =>
    match e.splitOn ":" with
    | [j, v] =>
      match v.splitOn "/" with
      | [a, b] =>
        match j.toNat?, parseOptNat a, parseOptNat b with
        | some j, some a, some b => some (j, a, b)
        | _, _, _ => none
      | _ => none
    | _ => none

def optArg (key : String) (toks : List String) : Option String :=
  match kv? key toks with
  | none => none
  | some "-" => none
  | some v => some v

def showLog (l : List (Nat × String)) : String :=
  if l.isEmpty then "-" else String.intercalate "," (l.map fun (i, h) => s!"{i}:{h}")

def parseLog (s : String) : Option (List (Nat × String)) :=
  (strList s).mapM fun e =>
    match e.splitOn ":" with
    | i :: rest@(_ :: _) => i.toNat?.map fun n => (n, String.intercalate ":" rest)
    | _ => none

def showResult (r : Result) : String :=
  s!"log={showLog r.log} config={if r.config then 1 else 0} ok={if r.ok then 1 else 0}"

def bit? : Option String → Option Bool
  | some "1" => some true
  | some "0" => some false
  | _ => none

def step (st : St) (toks : List String) : St × String :=
  match toks with
  -- `def` opens the description of one hook run (a case may describe several): the context list starts empty
  | ["def", names] => ({ st with defined := strList names, ctxs := [] }, "ok")
  | ["failidx", l] =>
    match natList? l with
    | some l => ({ st with failIdx := l }, "ok")
    | none => (st, "bad-op")
  | ["failnames", names] => ({ st with failNames := strList names }, "ok")
  | "ctx" :: rest =>
    let c : Ctx := { binding := optArg "b" rest, type := optArg "t" rest, watchEvent := optArg "w" rest,
                     groupName := optArg "g" rest, fromVersion := (optArg "from" rest).getD "",
                     toVersion := (optArg "to" rest).getD "" }
    -- the answer: what `hook::_get_possible_handler_names` prints for this context
    let ans := match possibleHandlerNames c with
      | none => "abort"
      | some l => "cands=" ++ showStrs l
    ({ st with ctxs := st.ctxs ++ [c] }, ans)
  | ["acts", l] =>
    match (strList l).mapM parseAct with
    | some as => ({ st with acts := as }, "ok")
    | none => (st, "bad-op")
  | ["stdin", l] => ({ st with stdin := strList l }, "ok")
  | ["looks", l] =>
    match (strList l).mapM parseAct with
    | some ls => ({ st with looks := ls }, "ok")
    | none => (st, "bad-op")
  | ["inherit", v] =>
    if v == "-" then ({ st with inherit := none }, "ok")
    else match v.toNat? with
      | some n => ({ st with inherit := some n }, "ok")
      | none => (st, "bad-op")
  | ["layout", l] =>
    if (layoutSegs l []).isSome then ({ st with layout := l }, "ok") else (st, "bad-op")
  | ["env", l] =>
    -- what the hook process inherits from the operator's environment: the dispatch does not depend on it
    ({ st with hookEnv := strList l }, "ok")
  | "run" :: args =>
    -- the script's own definitions in the order it makes them: __config__, the helper, the handlers
    let segs := (layoutSegs st.layout ("__config__" :: "__verif_handler" :: st.defined)).getD []
    let (r, seen) := hookRunL segs st.env args st.stdin st.ctxs
    let uses := r.log.map fun (_, h) => st.env.reads h
    -- a position beyond the array is no context (`jq` prints null)
    let inArr : Option Nat → Option Nat := fun o => o.bind fun n => if n < st.ctxs.length then some n else none
    let cur := (viewsOf st.inherit st.lookOf r.log).map fun (_, idx, ctx) => showU idx ++ "/" ++ showU (inArr ctx)
    (st, showResult r ++ " in=" ++ showStrs ((uses.zip seen).map fun (u, s) => showSeen u s) ++ " cur=" ++ showStrs cur)
  | ["oracle", "current", c] =>
    -- the clause "with that context selected as current" on what the handlers saw from where they looked
    match (kv? "cur" [c]).bind parseCur with
    | some views =>
      if Spec.currentOk 0 views then (st, "true")
      else (st, "false a handler (or a program it started) did not find its own context selected as current")
    | none => (st, "bad-op")
  | "oracle" :: "run" :: rest =>
    -- the property itself on what the implementation showed (documented names, not the table)
    match (kv? "log" rest).bind parseLog, bit? (kv? "config" rest), bit? (kv? "ok" rest), kv? "args" rest with
    | some log, some config, some ok, some args =>
      if st.ctxs.all (fun c => decide (Spec.wellFormed c)) then
        let r : Result := { log := log, config := config, ok := ok }
        if Spec.holds st.env (strList args) st.ctxs r then (st, "true")
        else
          let want := st.ctxs.map fun c => (Spec.chosen st.env c).getD "<none>"
          (st, s!"false chosen-per-context={showStrs want}")
      else (st, "bad-op")
    | _, _, _, _ => (st, "bad-op")
  | _ => (st, "bad-op")

def suite : Suite St := { init := {}, step := step }

end ShellOp.Drv.C19
