import ShellOp.Util
import ShellOp.Model.Startup
/-! Line-protocol suite for C06 (startup order). Core-only.

```
hook <id> v=<0|1> os=<ORDER|-> sched=<0|1> fails=<0101|-> kube=<name:group:execSync,…|-> [kfail=<pos,pos,…|->] [opts=<name:letters,…|->]    -> ok
       (kfail: the fault sequence of the hook's EnableKubernetesBindings task — position of the binding whose
        monitor cannot be created in the 1st, 2nd, … attempt;
        opts: the option keys of the binding the property does not mention — w/W waitForSynchronization false/true,
        k keepFullObjectsInMemory=false, j jqFilter, a executeHookOnEvent, m watchEvent, i includeSnapshotsFrom.
        Neither the model nor the oracles read them: the property holds whatever they are.)
order                      -> ids of GetHooksInOrder(OnStartup)
oracle order got=<ids>
bootstrap                  -> S<id> (onStartup HookRun) K<id> (EnableKubernetesBindings) C<id> (EnableScheduleBindings) …
oracle bootstrap got=<…>
enablefaults               -> hook:position of every failed EnableKubernetesBindings attempt, in order
run                        -> the startup executions hook/exit/ctx+ctx;…   (ctx: o | s<binding> | g<group>)
oracle log <every execution of the run, also e<binding> (Event) and c (Schedule) contexts>
oracle queues <the same log> <hook/binding/queue triples with a hook run, from the hook_run_seconds labels>
```
-/
namespace ShellOp.Drv.C06
open ShellOp ShellOp.Util ShellOp.Startup

structure St where
  hooks : List Hook := []
  fails : List (Nat × List Bool) := []
  queues : List (Nat × Nat × Nat) := []   -- (hook, binding, queue of the binding; 0 = main)

def failsFn (l : List (Nat × List Bool)) (h : Nat) : List Bool :=
  match l.find? (·.1 == h) with
  | some (_, s) => s
  | none => []

def parseBinding (s : String) : Option (KBinding × Nat) :=
  match s.splitOn ":" with
  | [n, g, e] => do some ({ name := ← n.toNat?, group := ← g.toNat?, execSync := e == "1" }, 0)
  | [n, g, e, q] => do some ({ name := ← n.toNat?, group := ← g.toNat?, execSync := e == "1" }, ← q.toNat?)
  | _ => none

def parseHook (toks : List String) : Option (Hook × List Bool × List (Nat × Nat × Nat)) :=
  match toks with
  | id :: rest => do
    let id ← id.toNat?
    let v ← kv? "v" rest
    let os ← kv? "os" rest
    let sched ← kv? "sched" rest
    let fails ← kv? "fails" rest
    let kube ← kv? "kube" rest
    let os ← if os == "-" then some none else (int? os).map some
    let kube ← (strList kube).mapM parseBinding
    let fl := if fails == "-" then [] else fails.toList.map (· == '1')
    let kf ← match kv? "kfail" rest with
      | some s => natList? s
      | none => some []
    -- a v0 configuration has neither groups nor the flag: the model gets what the converter produces
    some (convertV0 { name := id, v1 := v == "1", onStartup := os, kube := kube.map (·.1), sched := sched == "1", kfail := kf }, fl,
      kube.map (fun p => (id, p.1.name, p.2)))
  | _ => none

def showCtx : Ctx → String
  | .onStartup => "o"
  | .sync b g => if g == 0 then s!"s{b}" else s!"g{g}"

def showTask (t : Task) : String :=
  match t.typ with
  | .hookRun => if t.isSync then s!"R{t.hook}" else s!"S{t.hook}"
  | .enableKube => s!"K{t.hook}"
  | .enableSched => s!"C{t.hook}"

def showLog (l : List Ev) : String :=
  String.join (l.filterMap fun
    | .exec h f cs => some (s!"{h}/{if f then 1 else 0}/" ++ String.intercalate "+" (cs.map showCtx) ++ ";")
    | _ => none)

def showEnableFaults (l : List Ev) : String :=
  showStrs (l.filterMap fun
    | .enableKubeFail h k => some s!"{h}:{k}"
    | _ => none)

/-! ### The property on an observation (spec level; nothing below uses the model's functions) -/

inductive OCtx where
  | o | s (b : Nat) | g (g : Nat) | e (b : Nat) | c | x
  deriving DecidableEq, Repr

structure OExec where
  hook : Nat
  failed : Bool
  ctxs : List OCtx
  deriving Repr

def parseOCtx (s : String) : Option OCtx :=
  if s == "o" then some .o else if s == "c" then some .c else if s == "x" then some .x else
  match s.toList with
  | 's' :: r => (String.ofList r).toNat?.map .s
  | 'g' :: r => (String.ofList r).toNat?.map .g
  | 'e' :: r => (String.ofList r).toNat?.map .e
  | _ => none

def parseExec (s : String) : Option OExec :=
  match s.splitOn "/" with
  | [h, c, ctx] => do
    let h ← h.toNat?
    let cs ← (ctx.splitOn "+").mapM parseOCtx
    some { hook := h, failed := c != "0", ctxs := cs }
  | _ => none

def parseLog (s : String) : Option (List OExec) :=
  ((s.splitOn ";").filter (· ≠ "")).mapM parseExec

/-- (ORDER, path rank) lexicographic -/
def keyLt (a b : Hook) : Bool :=
  orderOf a < orderOf b || (orderOf a == orderOf b && a.name < b.name)

def sortedBy (lt : Hook → Hook → Bool) : List Hook → Bool
  | a :: b :: l => lt a b && sortedBy lt (b :: l)
  | _ => true

/-- the onStartup hooks in ascending ORDER, alphabetically among equal ORDER: the given ids are such a
listing iff they list exactly the onStartup hooks, each once, strictly increasing in (ORDER, path). -/
def isStartupOrder (hooks : List Hook) (ids : List Nat) : Bool :=
  let want := hooks.filter (·.onStartup.isSome)
  let got := ids.filterMap (fun i => want.find? (·.name == i))
  got.length == ids.length && ids.length == want.length && sortedBy keyLt got

def isStartupType (e : OExec) : Bool :=
  e.ctxs.any fun | .o => true | .s _ => true | .g _ => true | _ => false

def collapse : List Nat → List Nat
  | a :: b :: l => if a == b then collapse (b :: l) else a :: collapse (b :: l)
  | l => l

/-- maximal adjacent runs of deliverable bindings of group `g` in binding order -/
def groupRuns (g : Nat) : List KBinding → Bool → Nat
  | [], _ => 0
  | b :: l, inRun =>
    let here := b.group == g && b.execSync
    (if here && !inRun then 1 else 0) + groupRuns g l here

def countIf {α} (p : α → Bool) (l : List α) : Nat := (l.filter p).length

def checkLog (hooks : List Hook) (log : List OExec) : Option String := Id.run do
  -- O1/O6: onStartup executions first, in (ORDER, path) order, each once successfully
  let idx := log.zipIdx
  let oExecs := log.filter (fun e => e.ctxs.contains .o)
  if oExecs.any (fun e => e.ctxs != [.o]) then return some "an onStartup execution carries other contexts"
  let firstOther := (idx.find? (fun p => !(p.1.ctxs.contains .o))).map (·.2)
  let lastO := ((idx.filter (fun p => p.1.ctxs.contains .o)).getLast?).map (·.2)
  match firstOther, lastO with
  | some i, some j => if i < j then return some "a hook execution precedes an onStartup execution"
  | _, _ => pure ()
  if !isStartupOrder hooks (collapse (oExecs.map (·.hook))) then
    return some "onStartup executions are not the onStartup hooks in (ORDER, path) order"
  let okO := (oExecs.filter (!·.failed)).map (·.hook)
  if !isStartupOrder hooks okO then return some "an onStartup hook did not succeed exactly once"
  -- a failed onStartup execution is retried before anything else runs
  let rec retried : List OExec → Bool
    | a :: b :: l => (!a.failed || a.hook == b.hook) && retried (b :: l)
    | [a] => !a.failed
    | [] => true
  if !retried oExecs then return some "a failed onStartup execution was not retried at the head"
  -- O2: hooks are enabled in alphabetical order
  let syncHooks := (log.filter (fun e => e.ctxs.any fun | .s _ => true | .g _ => true | _ => false)).map (·.hook)
  let rec nondecr : List Nat → Bool
    | a :: b :: l => a ≤ b && nondecr (b :: l)
    | _ => true
  if !nondecr syncHooks then return some "Synchronization executions are not in alphabetical hook order"
  -- O3: each Synchronization once, or never when skipped
  for h in hooks do
    let mine := log.filter (·.hook == h.name)
    for b in h.kube do
      -- an ungrouped binding of a v1 hook with the flag true: exactly once; every other binding (flag false,
      -- v0 hook, or grouped: its delivery is the Group context) never gets a Synchronization context
      let deliverable := h.v1 && b.execSync && b.group == 0
      let ok := countIf (fun e => !e.failed && e.ctxs.contains (.s b.name)) mine
      let any := countIf (fun e => e.ctxs.contains (.s b.name)) mine
      if deliverable && ok != 1 then
        return some s!"hook {h.name} binding {b.name}: Synchronization delivered successfully {ok} times, want 1"
      if !deliverable && any != 0 then
        return some (if !h.v1 then s!"hook {h.name} binding {b.name}: Synchronization delivered to a v0 hook"
          else s!"hook {h.name} binding {b.name}: Synchronization delivered although it must be skipped")
    if !h.v1 && mine.any (fun e => e.ctxs.any fun | .g _ => true | _ => false) then
      return some s!"hook {h.name}: Group context delivered to a v0 hook"
    for g in (h.kube.map (·.group)).eraseDups do
      if g != 0 then
        let want := if h.v1 then groupRuns g h.kube false else 0
        let got := (mine.filter (!·.failed)).foldl (fun n e => n + countIf (· == .g g) e.ctxs) 0
        let any := mine.foldl (fun n e => n + countIf (· == .g g) e.ctxs) 0
        if got != want then
          return some s!"hook {h.name} group {g}: {got} Group contexts delivered successfully, want {want}"
        if want == 0 && any != 0 then
          return some s!"hook {h.name} group {g}: Group context delivered although every binding must be skipped"
    -- O4: schedules produce tasks only after the hook's startup executions
    let lastStartup := ((idx.filter (fun p => p.1.hook == h.name && isStartupType p.1)).getLast?).map (·.2)
    let firstSched := (idx.find? (fun p => p.1.hook == h.name && p.1.ctxs.contains .c)).map (·.2)
    match lastStartup, firstSched with
    | some i, some j => if j < i then return some s!"hook {h.name}: a Schedule execution precedes a startup execution"
    | _, _ => pure ()
    if !h.sched && firstSched.isSome then return some s!"hook {h.name}: Schedule execution without a schedule binding"
    -- O5: no Event of a binding before its Synchronization
    for b in h.kube do
      if b.group == 0 && h.v1 && b.execSync then
        let firstEv := (idx.find? (fun p => p.1.hook == h.name && p.1.ctxs.contains (.e b.name))).map (·.2)
        let sync := (idx.find? (fun p => p.1.hook == h.name && !p.1.failed && p.1.ctxs.contains (.s b.name))).map (·.2)
        match firstEv, sync with
        | some i, some j => if i < j then return some s!"hook {h.name} binding {b.name}: Event before Synchronization"
        | some _, none => return some s!"hook {h.name} binding {b.name}: Event without Synchronization"
        | _, _ => pure ()
  -- executions of unknown hooks
  if log.any (fun e => !(hooks.any (·.name == e.hook))) then return some "execution of an unknown hook"
  return none

/-- "in the main queue": a hook run of a kubernetes binding labelled with another queue than main is the
run of an Event of that binding (it has an Event execution in the log, and that queue is the binding's) —
never a Synchronization. Triples (hook, binding, queue) come from the `hook_run_seconds` labels. -/
def checkQueues (qs : List (Nat × Nat × Nat)) (log : List OExec) (triples : List (Nat × Nat × Nat)) : Option String :=
  match triples.find? (fun t => t.2.2 != 0 &&
      !(qs.contains t && log.any (fun e => e.hook == t.1 && e.ctxs.contains (.e t.2.1)))) with
  | some t => some s!"hook {t.1} binding {t.2.1}: a run in queue q{t.2.2} that is not an Event of a binding of that queue"
  | none => none

def parseTriple (s : String) : Option (Nat × Nat × Nat) :=
  match s.splitOn "/" with
  | [h, b, q] => do some (← h.toNat?, ← b.toNat?, ← q.toNat?)
  | _ => none

/-- bootstrapped queue: onStartup tasks in order, then per hook alphabetically K (if kubernetes bindings) C (if schedules) -/
def checkBootstrap (hooks : List Hook) (toks : List String) : Option String :=
  let ss := toks.filter (·.startsWith "S")
  let rest := toks.dropWhile (·.startsWith "S")
  let ids := ss.filterMap (fun t => (t.drop 1).toString.toNat?)
  let want := hooks.flatMap (fun h => (if h.kube.isEmpty then [] else [s!"K{h.name}"]) ++ (if h.sched then [s!"C{h.name}"] else []))
  if ids.length != ss.length then some "bad token"
  else if !isStartupOrder hooks ids then some "onStartup tasks are not in (ORDER, path) order"
  else if rest != want then some ("enable tasks want " ++ showStrs want)
  else none

def step (st : St) (toks : List String) : St × String :=
  match toks with
  | "hook" :: rest =>
    match parseHook rest with
    | some (h, fl, qs) => ({ hooks := st.hooks ++ [h], fails := st.fails ++ [(h.name, fl)], queues := st.queues ++ qs }, "ok")
    | none => (st, "bad-op")
  | ["order"] => (st, showNats ((getHooksInOrder st.hooks).map (·.name)))
  | ["bootstrap"] => (st, showStrs ((bootstrap st.hooks).map showTask))
  | ["enablefaults"] =>
    let s := run st.hooks (failsFn st.fails)
    if s.queue.isEmpty then (st, showEnableFaults s.log) else (st, "model-out-of-fuel")
  | ["run"] =>
    let s := run st.hooks (failsFn st.fails)
    if s.queue.isEmpty then (st, "log=" ++ (if (showLog s.log).isEmpty then ";" else showLog s.log)) else (st, "model-out-of-fuel")
  | "oracle" :: "order" :: rest =>
    match (kv? "got" rest).bind natList? with
    | some ids => (st, if isStartupOrder st.hooks ids then "true" else "false not the onStartup hooks in (ORDER, path) order")
    | none => (st, "bad-op")
  | "oracle" :: "bootstrap" :: rest =>
    match kv? "got" rest with
    | some s =>
      match checkBootstrap st.hooks (strList s) with
      | none => (st, "true")
      | some why => (st, "false " ++ why)
    | none => (st, "bad-op")
  | ["oracle", "log", l] =>
    match parseLog l with
    | some log =>
      match checkLog st.hooks log with
      | none => (st, "true")
      | some why => (st, "false " ++ why)
    | none => (st, "bad-op")
  | ["oracle", "queues", l, t] =>
    match parseLog l, ((t.splitOn ";").filter (· ≠ "")).mapM parseTriple with
    | some log, some triples =>
      match checkQueues st.queues log triples with
      | none => (st, "true")
      | some why => (st, "false " ++ why)
    | _, _ => (st, "bad-op")
  | _ => (st, "bad-op")

def suite : Suite St := { init := {}, step := step }

end ShellOp.Drv.C06
