import ShellOp.Util
import ShellOp.Model.Conversion
import ShellOp.Model.ConversionOverlap
import ShellOp.Model.ConversionGlue
/-! Line-protocol suite for C15 (conversion chains). Core-only.

ops
* `put <crd> <from> <to>`                     → `ok`
* `find <crd> <from> <to>`                    → `found` | `none`          (model, deterministic order)
* `oracle chain crd=<c> from=<a> to=<b> found=<0|1> chain=<f>t,f>t,…|-> scope=<std|same|multi>`
    the property on what the implementation returned: a returned chain must be a valid chain of
    declared rules from a to b; nothing returned only if no valid chain exists.
    scope=same (a and b are one version) / multi (two groups qualify one short version): the
    excluded points of `chain_complete` — only the unconditional soundness is demanded.
* `e2e …` / `oracle e2e …`                     see `e2eStep`, `oracleE2E` (one line per request, also when
    several requests were in flight at the same time: the request's own objects, script, hook runs, answer)
-/
namespace ShellOp.Drv.C15
open ShellOp ShellOp.Util ShellOp.Conversion

structure St where
  chains : List (String × Chain) := []
  rules : List (String × List Rule) := []

def getChain (st : St) (crd : String) : Option Chain := (st.chains.find? (·.1 == crd)).map (·.2)
def getRules (st : St) (crd : String) : List Rule := ((st.rules.find? (·.1 == crd)).map (·.2)).getD []

def setAssoc {β : Type} (l : List (String × β)) (k : String) (v : β) : List (String × β) :=
  if l.any (·.1 == k) then l.map (fun e => if e.1 == k then (k, v) else e) else l ++ [(k, v)]

def ver (s : String) : Ver := if s == "-" then [] else s.toList

def parseRule (s : String) : Option Rule :=
  match s.splitOn ">" with
  | [a, b] => some ⟨ver a, ver b⟩
  | _ => none

def parsePath (s : String) : Option Path := (strList s).mapM parseRule

def showVer (v : Ver) : String := if v.isEmpty then "-" else String.ofList v
def showRule (r : Rule) : String := showVer r.src ++ ">" ++ showVer r.dst
def showPath (p : Path) : String := showStrs (p.map showRule)

/-- same short version -/
def sameShort (x y : Ver) : Bool := trimGroup x == trimGroup y

def oracleChain (st : St) (rest : List String) : String :=
  match kv? "crd" rest, kv? "from" rest, kv? "to" rest, kv? "found" rest,
        (kv? "chain" rest).bind parsePath, kv? "scope" rest with
  | some crd, some a, some b, some found, some chain, some scope =>
    let rules := getRules st crd
    let a := ver a
    let b := ver b
    if found == "1" then
      if chain.isEmpty then "bad-op"
      else if scope == "multi" then
        if isChainB sameShort rules a b chain then "true" else "false returned-chain-is-not-a-chain(short)"
      else if isChainB versionsMatched rules a b chain then "true"
      else "false returned-chain-is-not-a-valid-chain"
    else if found == "0" then
      if scope != "std" then "true"
      else if chainExistsDec rules a b then "false a-valid-chain-exists-but-none-was-returned"
      else "true"
    else "bad-op"
  | _, _, _, _, _, _ => "bad-op"

/-! ### end to end -/

def parseObj (s : String) : Option Obj :=
  match s.splitOn "@" with
  | [i, v] => i.toNat?.map (fun i => ⟨i, ver v⟩)
  | _ => none

def parseObjs (s : String) : Option (List Obj) := (strList s).mapM parseObj

def showObjs (l : List Obj) : String := showStrs (l.map fun o => s!"{o.id}@{showVer o.ver}")

/-- one scripted hook outcome (what the bash hook of the harness does at its i-th run):
`x` exit 1 · `j` garbage in the response file (the run fails) · `e` response file left empty ·
`k<n>` n converted objects at the full spelling of the rule's toVersion · `w<n>` n objects, apiVersion
untouched · `d<n>` n objects at the desired apiVersion · `m<n>:<msg>` failedMessage + n objects ·
`p<letters>` one returned object per letter: `c` converted (the rule's toVersion) · `d` at the desired
apiVersion · `o` left as it came · `n` apiVersion removed · `b` `{}` · `z` `null` (an object without
apiVersion decodes to the empty version, one without a name is number 0).
A leading capital letter = what the hook does on its other output channels besides that: `M` a metric
operation that is not valid · `P` an object-patch operation that is not valid · `G` a valid metric
operation (`Glue.stepOut`: what the handler sees of such a run). -/
inductive Item where
  | x | e
  | k (n : Nat) | w (n : Nat) | d (n : Nat)
  | m (n : Nat) (msg : String)
  | p (letters : List Char)
  | side (ch : Char) (it : Item)

def parseItem0 (s : String) : Option Item :=
  match s.splitOn ":" with
  | ["x"] => some .x
  | ["j"] => some .x
  | ["e"] => some .e
  | [t] =>
    let n := (t.drop 1).toString.toNat?
    if t.startsWith "p" then
      let ls := (t.drop 1).toString.toList
      if ls.all (fun ch => "cdonbz".toList.contains ch) then some (.p ls) else none
    else if t.startsWith "k" then n.map .k else if t.startsWith "w" then n.map .w
    else if t.startsWith "d" then n.map .d else none
  | [t, msg] =>
    if t.startsWith "m" && msg != "" then (t.drop 1).toString.toNat?.map (fun n => .m n msg) else none
  | _ => none

def parseItem (s : String) : Option Item :=
  match s.toList with
  | ch :: rest =>
    if ch == 'M' || ch == 'P' || ch == 'G' then (parseItem0 (String.ofList rest)).map (.side ch)
    else parseItem0 s
  | [] => parseItem0 s

def full (group v : Ver) : Ver := if (afterSlash v).isSome then v else group ++ ['/'] ++ v

/-- the first `n` input objects (fresh ids 900+j beyond them) -/
def mkOut (n : Nat) (input : List Obj) (v : Option Ver) : List Obj :=
  (List.range n).map fun j =>
    match input[j]? with
    | some o => ⟨o.id, v.getD o.ver⟩
    | none => ⟨900 + j, v.getD ((input.head?.map (·.ver)).getD [])⟩

/-- one returned object per letter, as raw JSON; the `j`-th starts from the `j`-th input object
(fresh beyond). An input object of the empty version is handed on as one without `apiVersion`. -/
def mkMixedRaw (letters : List Char) (input : List Obj) (v desired : Ver) : List RawObj :=
  (List.range letters.length).map fun j =>
    let base : Obj := match input[j]? with
      | some o => o
      | none => ⟨900 + j, (input.head?.map (·.ver)).getD []⟩
    match letters[j]? with
    | some 'c' => .obj base.id (some v)
    | some 'd' => .obj base.id (some desired)
    | some 'o' => .obj base.id (if base.ver.isEmpty then none else some base.ver)
    | some 'n' => .obj base.id none
    | some 'b' => .obj 0 none
    | _ => .null

def mkMixed (letters : List Char) (input : List Obj) (v desired : Ver) : List Obj :=
  (mkMixedRaw letters input v desired).map RawObj.decode

def interp (group desired : Ver) (it : Item) (r : Rule) (input : List Obj) : HookOut :=
  match it with
  | .x => .exitFail
  | .e => .noResponse
  | .k n => .resp "" (mkOut n input (some (full group r.dst)))
  | .w n => .resp "" (mkOut n input none)
  | .d n => .resp "" (mkOut n input (some desired))
  | .m n msg => .resp msg (mkOut n input (some (full group r.dst)))
  | .p ls => .resp "" (mkMixed ls input (full group r.dst) desired)
  | .side ch it =>
    -- the hook process does `it`; what the handler sees of the run is decided by all its channels
    let inner := interp group desired it r input
    Glue.stepOut {
      exitOk := inner != .exitFail
      patchOk := ch != 'P'
      metricsOk := ch != 'M'
      resp := match inner with
        | .resp m o => some (m, o)
        | _ => none }

def showMsg : Msg → String
  | .own s => "own:" ++ s
  | .hookFailed => "hook-failed"
  | .notSuccessful => "not-successful"
  | .propError => "prop-error"
  | .noHook => "no-hook"
  | .countMismatch => "count-mismatch"

def parseMsg (s : String) : Option Msg :=
  if s.startsWith "own:" then some (.own (s.drop 4).toString) else
  match s with
  | "hook-failed" => some .hookFailed
  | "not-successful" => some .notSuccessful
  | "prop-error" => some .propError
  | "no-hook" => some .noHook
  | "count-mismatch" => some .countMismatch
  | _ => none

def showReply : Reply → String
  | .success objs => "Success objs=" ++ showObjs objs
  | .failed m => "Failed msg=" ++ showMsg m

def showInv (inv : List Invocation) : String :=
  if inv.isEmpty then "-" else String.intercalate ";" (inv.map fun i => showRule i.rule ++ "[" ++ showObjs i.input ++ "]")

def parseInvOne (s : String) : Option Invocation :=
  match s.splitOn "[" with
  | [r, rest] =>
    match parseRule r, parseObjs (rest.dropEnd 1).toString with
    | some r, some o => some ⟨r, o⟩
    | _, _ => none
  | _ => none

def parseInv (s : String) : Option (List Invocation) :=
  if s == "-" then some [] else (s.splitOn ";").mapM parseInvOne

/-- the script of a case: the i-th hook run does the i-th scripted thing (runs beyond the script
exit non-zero) -/
def scriptOf (group desired : Ver) (items : List Item) : Script := fun i r input =>
  match items[i]? with
  | some it => interp group desired it r input
  | none => .exitFail

def parseScript (s : String) : Option (List Item) :=
  if s == "-" then some [] else (s.splitOn ";").mapM parseItem

structure E2E where
  rules : List Rule
  links : List Rule
  desired : Ver
  objs : List Obj
  group : Ver
  outs : List Item

def parseE2E (rest : List String) : Option E2E := do
  let rules ← (kv? "rules" rest).bind parsePath
  let links ← (kv? "links" rest).bind parsePath
  let desired ← (kv? "to" rest).map ver
  let objs ← (kv? "objs" rest).bind parseObjs
  let outs ← (kv? "script" rest).bind parseScript
  let group ← (kv? "group" rest).map ver
  some ⟨rules, links, desired, objs, group, outs⟩

/-- the property of the application phase, on an observed run: `applyCheck` (order, piping, Success
only if …, own message; `Props/C15.apply_chain`) and `servedCheck` (served whenever a chain exists:
a `Failed` needs a reason; `Props/C15.apply_served`) -/

def e2eStep (rest : List String) : String :=
  match parseE2E rest with
  | none => "bad-op"
  | some e =>
    let c := Chain.ofRules e.rules
    let (reply, inv) := convert Order.ident (fun r => e.links.contains r) (scriptOf e.group e.desired e.outs) c e.desired e.objs
    s!"{showReply reply} inv={showInv inv}"

def parseReply (rest : List String) : Option Reply :=
  match kv? "status" rest with
  | some "Success" => ((kv? "robjs" rest).bind parseObjs).map .success
  | some "Failed" => ((kv? "msg" rest).bind parseMsg).map .failed
  | _ => none

/-- `req=<uid> handed=<uid;uid;…>`: the uid of the request, and the uid of the review each hook run
made for it found in its binding context (`-` = no run) -/
def parseHanded (rest : List String) : Option (String × List String) :=
  match kv? "req" rest, kv? "handed" rest with
  | some req, some h => some (req, if h == "-" then [] else h.splitOn ";")
  | _, _ => none

def oracleE2E (rest : List String) : String :=
  -- a run the harness saw under a hook / binding that did not declare the rule for the CRD of the request
  if (((kv? "inv" rest).getD "").splitOn "ran-in-a-hook-or-binding-that-did-not-register-it").length > 1 then
    (match (parseHanded rest).bind (fun h => Glue.reviewCheck h.2) with
     | some why => "false " ++ why
     | none => "false a-run-was-made-under-a-binding-that-did-not-declare-the-rule-for-this-crd")
  else
  match parseE2E rest, (kv? "inv" rest).bind parseInv, parseReply rest, parseHanded rest with
  | some e, some inv, some reply, some (req, handed) =>
    if handed.length != inv.length then "bad-op" else
    match Glue.reviewCheck handed with
    | some why => "false " ++ why
    | none =>
    match Overlap.handedCheck req handed with
    | some why => "false " ++ why
    | none =>
    match applyCheck e.rules e.desired e.objs (scriptOf e.group e.desired e.outs) inv reply with
    | some why => "false " ++ why
    | none =>
      match servedCheck e.rules (fun r => e.links.contains r) e.desired e.objs
          (scriptOf e.group e.desired e.outs) inv reply with
      | none => "true"
      | some why => "false " ++ why
  | _, _, _, _ => "bad-op"

def step (st : St) (toks : List String) : St × String :=
  match toks with
  | ["put", crd, a, b] =>
    let r : Rule := ⟨ver a, ver b⟩
    let c := ((getChain st crd).getD {}).put r
    let rs := getRules st crd
    ({ chains := setAssoc st.chains crd c, rules := setAssoc st.rules crd (if rs.contains r then rs else rs ++ [r]) }, "ok")
  | ["find", crd, a, b] =>
    match getChain st crd with
    | none => (st, "none")
    | some c =>
      let (c', out) := findCode Order.ident c ⟨ver a, ver b⟩
      ({ st with chains := setAssoc st.chains crd c' },
        match out with
        | .found _ => "found"
        | .notFound => "none"
        | .outOfFuel => "out-of-fuel")
  | "oracle" :: "chain" :: rest => (st, oracleChain st rest)
  | "oracle" :: "e2e" :: rest => (st, oracleE2E rest)
  | "e2e" :: rest => (st, e2eStep rest)
  | _ => (st, "bad-op")

def suite : Suite St := { init := {}, step := step }

end ShellOp.Drv.C15
