import ShellOp.Util
import ShellOp.Model.Schedule
/-! Line-protocol suite for C11 (schedules). Core-only. -/
namespace ShellOp.Drv.C11
open ShellOp ShellOp.Util ShellOp.Schedule

structure St where
  crontabs : List (Nat × Bool) := []          -- declared crontabs with the parser's verdict
  sm : State := {}                            -- part A: the manager alone
  reg : Spec.Reg := []                        -- the specification's set of registered pairs
  cfg : List (Nat × List Binding) := []       -- part B: effective schedule bindings per hook
  hooks : List Nat := []                      -- hooksInOrder[Schedule]
  queues : List Nat := []
  sys : Sys := {}
  hist : List SysOp := []
  dflt : Defaults := { schedName := 0, mainQueue := 0, noGroup := 0 }
  v0 : List (Nat × Bool) := []                -- configuration format of each hook
  kubes : List (Nat × List KubeDecl) := []    -- declared kubernetes bindings per hook
  decls : List (Nat × List (Nat × Decl)) := [] -- declared schedule entries per hook (with their model ids)

def St.valid (st : St) (c : Nat) : Bool := (st.crontabs.lookup c).getD true
def St.cfgFn (st : St) (h : Nat) : List Binding := (st.cfg.lookup h).getD []

def St.isV0 (st : St) (h : Nat) : Bool := (st.v0.lookup h).getD false
def St.kubesOf (st : St) (h : Nat) : List KubeDecl := (st.kubes.lookup h).getD []
def St.declsOf (st : St) (h : Nat) : List (Nat × Decl) := (st.decls.lookup h).getD []

def insertSorted (x : String) : List String → List String
  | [] => [x]
  | y :: ys => if x < y || x == y then x :: y :: ys else y :: insertSorted x ys

def sortStrs (l : List String) : List String := l.foldr insertSorted []

def showIncl (l : List Nat) : String :=
  if l.isEmpty then "_" else String.intercalate "+" (l.map toString)

def showTask (t : Task) : String :=
  s!"{t.hook}:{t.binding}:{t.group}:{showBool t.allowFailure}:{t.ctxBinding}:{showIncl t.ctxIncludes}:{t.ctxGroup}:{t.queue}"

def showTasks (ts : List Task) : String := showStrs (sortStrs (ts.map showTask))

/-- `entries=<crontab>:<entryId>:<ids+…>;…` over the declared crontabs, `cron=<id>@<crontab>,…`. -/
def showSm (st : St) (s : State) : String :=
  let rows := st.crontabs.filterMap (fun (c, _) =>
    (s.entries c).map (fun e => s!"{c}:{e.entryId}:{showIncl (e.ids.mergeSort (· ≤ ·))}"))
  let rows := if rows.isEmpty then "-" else String.intercalate ";" rows
  let live := s.cron.live.map (fun (i, c) => s!"{i}@{c}")
  s!"entries={rows} cron={showStrs live}"

def parseIncl (s : String) : Option (List Nat) :=
  if s == "_" then some [] else (s.splitOn "+").mapM String.toNat?

def parseBool? : String → Option Bool
  | "true" => some true | "false" => some false | _ => none

def parseTask (s : String) : Option Task :=
  match s.splitOn ":" with
  | [h, b, g, af, cb, ci, cg, q] => do
    some { hook := ← h.toNat?, binding := ← b.toNat?, group := ← g.toNat?, allowFailure := ← parseBool? af,
           ctxBinding := ← cb.toNat?, ctxIncludes := ← parseIncl ci, ctxGroup := ← cg.toNat?, queue := ← q.toNat? }
  | _ => none

def parseOpt (s : String) : Option (Option Nat) :=
  if s == "_" then some none else s.toNat?.map some

def showBinding (b : Binding) : String :=
  s!"{b.name}:{b.crontab}:{showIncl b.includes}:{showBool b.allowFailure}:{b.queue}:{b.group}"

def parseLoaded (id : Nat) (s : String) : Option Binding :=
  match s.splitOn ":" with
  | [n, c, inc, af, q, g] => do
    some { id := id, name := ← n.toNat?, crontab := ← c.toNat?, includes := ← parseIncl inc,
           allowFailure := ← parseBool? af, queue := ← q.toNat?, group := ← g.toNat? }
  | _ => none

/-- The property's "that binding's name, group, allowFailure, snapshot list, queue" on what the loader
handed to the controller: the loaded binding is the one the hook declared (`Spec.declaredAs`). -/
def oracleLoaded (st : St) (h id : Nat) (got : Binding) : String :=
  match (st.declsOf h).lookup id with
  | none => "false no-such-declaration"
  | some d =>
    if Spec.declaredAs st.dflt (st.isV0 h) (st.kubesOf h) id d got then "true"
    else s!"false declared name={d.name.getD st.dflt.schedName} queue={if st.isV0 h then st.dflt.mainQueue else d.queue.getD st.dflt.mainQueue} group={if st.isV0 h then st.dflt.noGroup else d.group} allowFailure={showBool d.allowFailure} includes={showIncl (if st.isV0 h then [] else d.includes)}+group={showIncl (if st.isV0 h then [] else Spec.groupNames st.dflt (st.kubesOf h) d.group)}"

def parseCrontabDecl (s : String) : Option (Nat × Bool) :=
  match s.splitOn ":" with
  | [c, "1"] => c.toNat?.map (·, true)
  | [c, "0"] => c.toNat?.map (·, false)
  | _ => none

def count (l : List Nat) (c : Nat) : Nat := (l.filter (· == c)).length

/-- The property (reference counting) on what the implementation showed: `fired` lists, for every
live cron registration, the crontab its job sent. -/
def oracleLive (st : St) (fired : List Nat) : String :=
  let cs := (st.crontabs.map (·.1) ++ fired).eraseDups
  match cs.find? (fun c => count fired c != Spec.wantLive st.valid st.reg c) with
  | none => "true"
  | some c => s!"false crontab={c} live={count fired c} want={Spec.wantLive st.valid st.reg c}"

/-- The property (one task per enabled binding, in its queue) on the observed tasks of one tick. -/
def oracleTick (st : St) (c : Nat) (seen : List Task) : String :=
  let want := Spec.wantTasks st.cfgFn st.hooks (Spec.enabledAfter st.hist) c
  if sortStrs (seen.map showTask) == sortStrs (want.map showTask) then "true"
  else s!"false want={showTasks want}"

/-- The same clause for one wall-clock instant at which several crontabs (the declared spellings of one
schedule) are due together: one task per enabled binding whose crontab is one of them. -/
def oracleWall (st : St) (cs : List Nat) (seen : List Task) : String :=
  let want := cs.flatMap (Spec.wantTasks st.cfgFn st.hooks (Spec.enabledAfter st.hist))
  if sortStrs (seen.map showTask) == sortStrs (want.map showTask) then "true"
  else s!"false want={showTasks want}"

def showQueues (qs : List (Nat × List Task)) : String :=
  if qs.isEmpty then "-" else String.intercalate " " (qs.map (fun (q, ts) => s!"q{q}={showTasks ts}"))

def smOpsOf (st : St) : SysOp → List Op
  | .enable h => (st.cfgFn h).map (fun b => .add b.crontab b.id)
  | .disable h => (st.cfgFn h).map (fun b => .remove b.crontab b.id)

def sysDo (st : St) (op : SysOp) : St × String :=
  let sys' := sysStep st.valid st.cfgFn st.sys op
  let st' := { st with sys := sys', hist := st.hist ++ [op], reg := (smOpsOf st op).foldl Spec.step st.reg }
  (st', showSm st' sys'.sm)

def step (st : St) (toks : List String) : St × String :=
  match toks with
  | "crontabs" :: ds =>
    match ds.mapM parseCrontabDecl with
    | some l => ({ st with crontabs := l }, "ok")
    | none => (st, "bad-op")
  | ["add", c, id] =>
    match c.toNat?, id.toNat? with
    | some c, some id =>
      let s' := add st.valid st.sm c id
      let st' := { st with sm := s', reg := Spec.step st.reg (.add c id) }
      (st', showSm st' s')
    | _, _ => (st, "bad-op")
  | ["remove", c, id] =>
    match c.toNat?, id.toNat? with
    | some c, some id =>
      let s' := remove st.sm c id
      let st' := { st with sm := s', reg := Spec.step st.reg (.remove c id) }
      (st', showSm st' s')
    | _, _ => (st, "bad-op")
  | ["oracle", "live", f] =>
    match (kv? "fired" [f]).bind natList? with
    | some fired => (st, oracleLive st fired)
    | none => (st, "bad-op")
  | ["hook", h] =>
    match h.toNat? with
    | some h => ({ st with hooks := st.hooks ++ [h], cfg := st.cfg ++ [(h, [])] }, "ok")
    | none => (st, "bad-op")
  | ["defaults", n, q, g] =>
    match n.toNat?, q.toNat?, g.toNat? with
    | some n, some q, some g => ({ st with dflt := { schedName := n, mainQueue := q, noGroup := g } }, "ok")
    | _, _, _ => (st, "bad-op")
  | ["hook", h, ver] =>
    match h.toNat?, (if ver == "v0" then some true else if ver == "v1" then some false else none) with
    | some h, some v0 =>
      ({ st with hooks := st.hooks ++ [h], cfg := st.cfg ++ [(h, [])], v0 := st.v0 ++ [(h, v0)],
                 kubes := st.kubes ++ [(h, [])], decls := st.decls ++ [(h, [])] }, "ok")
    | _, _ => (st, "bad-op")
  | ["kube", h, n, g] =>
    match h.toNat?, n.toNat?, g.toNat? with
    | some h, some n, some g =>
      if (st.decls.lookup h).isNone then (st, "bad-op") else
      ({ st with kubes := st.kubes.map (fun (h', ks) => if h' == h then (h', ks ++ [{ name := n, group := g }]) else (h', ks)) }, "ok")
    | _, _, _ => (st, "bad-op")
  | ["decl", h, id, name, c, inc, af, q, g] =>
    -- one declared schedule entry: the model loads it (config_v0.go / config_v1.go) and shows the
    -- effective binding; the model's configuration is what the hook DECLARED, loaded by the model
    match h.toNat?, id.toNat?, parseOpt name, c.toNat?, parseIncl inc, parseBool? af, parseOpt q, g.toNat? with
    | some h, some id, some name, some c, some inc, some af, some q, some g =>
      if (st.decls.lookup h).isNone then (st, "bad-op") else
      let d : Decl := { name := name, crontab := c, includes := inc, allowFailure := af, queue := q, group := g }
      let ds := st.declsOf h ++ [(id, d)]
      let bs := load st.dflt (st.isV0 h) (st.kubesOf h) ds
      let st' := { st with decls := st.decls.map (fun (h', x) => if h' == h then (h', ds) else (h', x)),
                           cfg := st.cfg.map (fun (h', x) => if h' == h then (h', bs) else (h', x)) }
      (st', match bs.getLast? with | some b => showBinding b | none => "-")
    | _, _, _, _, _, _, _, _ => (st, "bad-op")
  | ["extra-bindings", h] =>
    match h.toNat? with
    | some _ => (st, "0")
    | none => (st, "bad-op")
  | ["oracle", "loaded", h, id, got] =>
    match (kv? "h" [h]).bind String.toNat?, (kv? "id" [id]).bind String.toNat?, kv? "got" [got] with
    | some h, some id, some g =>
      match parseLoaded id g with
      | some b => (st, oracleLoaded st h id b)
      | none => (st, "bad-op")
    | _, _, _ => (st, "bad-op")
  | ["oracle", "ids", n, d] =>
    -- binding ids identify bindings (the (crontab, id) pairs of the property are per binding)
    match (kv? "bindings" [n]).bind String.toNat?, (kv? "distinct" [d]).bind String.toNat? with
    | some n, some d => (st, if n == d then "true" else s!"false bindings={n} distinct-ids={d}")
    | _, _ => (st, "bad-op")
  | ["queue", q] =>
    match q.toNat? with
    | some q => ({ st with queues := st.queues ++ [q] }, "ok")
    | none => (st, "bad-op")
  | ["binding", h, id, name, c, inc, af, q, g] =>
    match h.toNat?, id.toNat?, name.toNat?, c.toNat?, parseIncl inc, parseBool? af, q.toNat?, g.toNat? with
    | some h, some id, some name, some c, some inc, some af, some q, some g =>
      let b : Binding := { id := id, name := name, crontab := c, includes := inc, allowFailure := af, queue := q, group := g }
      ({ st with cfg := st.cfg.map (fun (h', bs) => if h' == h then (h', bs ++ [b]) else (h', bs)) }, "ok")
    | _, _, _, _, _, _, _, _ => (st, "bad-op")
  | ["enable", h] =>
    match h.toNat? with
    | some h => sysDo st (.enable h)
    | none => (st, "bad-op")
  | ["disable", h] =>
    match h.toNat? with
    | some h => sysDo st (.disable h)
    | none => (st, "bad-op")
  | ["cb", c] =>
    match c.toNat? with
    | some c => (st, showTasks (scheduleTasks id st.hooks st.sys.links c))
    | none => (st, "bad-op")
  | ["tick", c] =>
    match c.toNat? with
    | some c =>
      let ts := tickTasks id st.hooks st.sys c
      (st, showQueues (place (st.queues.map (·, [])) ts))
    | none => (st, "bad-op")
  | ["wtick", cs] =>
    match parseIncl cs with
    | some cs =>
      -- `cs` = the declared crontab strings the real parser reads as the schedule that is due
      let ts := wallTickTasks (fun c => if cs.contains c then 1 else 0) id st.hooks st.sys 1
      (st, showQueues (place (st.queues.map (·, [])) ts))
    | none => (st, "bad-op")
  | ["oracle", "wtick", cs, ts] =>
    match (kv? "cs" [cs]).bind parseIncl, (kv? "tasks" [ts]).map strList with
    | some cs, some l =>
      match l.mapM parseTask with
      | some seen => (st, oracleWall st cs seen)
      | none => (st, "bad-op")
    | _, _ => (st, "bad-op")
  | ["oracle", "event", c, ts] =>
    match (kv? "c" [c]).bind String.toNat?, (kv? "tasks" [ts]).map strList with
    | some c, some l =>
      match l.mapM parseTask with
      | some seen => (st, oracleTick st c seen)
      | none => (st, "bad-op")
    | _, _ => (st, "bad-op")
  | ["oracle", "tick", c, ts] =>
    match (kv? "c" [c]).bind String.toNat?, (kv? "tasks" [ts]).map strList with
    | some c, some l =>
      match l.mapM parseTask with
      | some seen => (st, oracleTick st c seen)
      | none => (st, "bad-op")
    | _, _ => (st, "bad-op")
  | _ => (st, "bad-op")

def suite : Suite St := { init := {}, step := step }

end ShellOp.Drv.C11
