import ShellOp.Util
import ShellOp.Model.Trigger
import ShellOp.Model.FactoryStore
import ShellOp.Drv.JsonParse
/-! Line-protocol suite for C08 (trigger decision of a resource informer). Core-only.

Ordinary lines: the code-shaped model `Trigger.handle` / `Trigger.load` / `Filter.eval`.
`oracle` lines: the property itself (`Trigger.Spec.step`, no checksums) evaluated on what the
implementation showed. The checksum of the model is the canonical text of the projection; both
sides print checksums as `c<k>` numbered by first appearance, so only the equality pattern is
compared. -/
namespace ShellOp.Drv.C08
open ShellOp ShellOp.Util ShellOp.Json ShellOp.Trigger ShellOp.Drv.JsonParse

structure St where
  cfg : Cfg := {}
  exec : Option (List WatchEvent) := none    -- `executeHookOnEvent` as written in the hook config
  watch : Option (List WatchEvent) := none   -- `watchEvent` (deprecated alias) as written
  v0 : Option (List String) := none          -- configVersion v0: the `event` list as written
  ready : Bool := false
  cache : Cache String := []
  known : Spec.Known := []
  latest : List (Nat × J) := []      -- spec: the last state of every live object
  ckTab : List String := []
  specFired : Bool := false
  specFr : Option J := none
  specFrDefined : Bool := true   -- false: the filter fails on the delivered object, the spec is silent

def cks : J → String := textCks id

def intern (tab : List String) (s : String) : List String × Nat :=
  match tab.idxOf? s with
  | some i => (tab, i + 1)
  | none => (tab ++ [s], tab.length + 1)

def insertById {α : Type} (x : Nat × α) : List (Nat × α) → List (Nat × α)
  | [] => [x]
  | y :: ys => if x.1 ≤ y.1 then x :: y :: ys else y :: insertById x ys

def sortById {α : Type} (l : List (Nat × α)) : List (Nat × α) := l.foldr insertById []

def showEntry (tab : List String) (id : Nat) (e : Entry String) : List String × String :=
  let (tab, k) := intern tab e.cks
  (tab, s!"{id}@c{k}:fr={showOptJ e.fr}:obj={if e.obj.isSome then 1 else 0}")

def showCache (tab : List String) (c : Cache String) : List String × String :=
  let (tab, parts) := (sortById c).foldl (fun (acc : List String × List String) kv =>
    let (t, s) := showEntry acc.1 kv.1 kv.2
    (t, acc.2 ++ [s])) (tab, [])
  (tab, if parts.isEmpty then "-" else String.intercalate "," parts)

/-- a key of the binding: `~` = absent, `-` = the empty list, otherwise the list -/
def optTypes? (s : String) : Option (Option (List WatchEvent)) :=
  if s == "~" then some none else ((strList s).mapM WatchEvent.ofString?).map some

def showTypes (l : List WatchEvent) : String :=
  if l.isEmpty then "-" else String.intercalate "," (l.map WatchEvent.toString)

/-- The configuration the property speaks about: the event types *listed* by the binding as
written (`Spec.listed`), not what the loader made of it. -/
def specListed (st : St) (ev : WatchEvent) : Bool :=
  match st.v0 with
  | some names => Spec.listedV0 names ev
  | none => Spec.listed st.exec st.watch ev

def specCfg (st : St) : Cfg :=
  { st.cfg with types := [WatchEvent.added, .modified, .deleted].filter (specListed st) }

def parseKV (t : String) : Option (Nat × J) :=
  match t.splitOn "=" with
  | k :: rest => do some (← k.toNat?, ← json? (String.intercalate "=" rest))
  | _ => none

/-- spec snapshot entry: `id~fr~obj` -/
def specSnap (st : St) : List String :=
  (sortById st.latest).map (fun (id, obj) =>
    let fr := match st.cfg.filter with
      | none => "-"
      | some _ => showOptJ (aget id st.known)
    let o := if st.cfg.keep then obj.print else "-"
    s!"{id}~{fr}~{o}")

/-- one change: the code-shaped model (`handle`) answers the ordinary line, the spec (`Spec.step`)
is remembered for the oracle lines that follow -/
def evStep (st : St) (quiet : Bool) (t id o : String) : St × String :=
  if !st.ready then (st, "bad-op") else
  match WatchEvent.ofString? t, id.toNat?, json? o with
  | some ev, some id, some obj =>
    let r := handle st.cfg cks st.cache ev id obj
    let sp := Spec.step (specCfg st) st.known ev id obj
    let (tab, fired) := match r.2 with
      | none => (st.ckTab, "-")
      | some e =>
        if e.ev == WatchEvent.deleted then
          -- the checksum of a deleted object is not part of the observation
          (st.ckTab, s!"Deleted:{e.id}@-:fr={showOptJ e.entry.fr}:obj={if e.entry.obj.isSome then 1 else 0}")
        else let (t, s) := showEntry st.ckTab e.id e.entry; (t, s!"{e.ev.toString}:{s}")
    let (tab, cs) := if quiet then (tab, "") else showCache tab r.1
    let latest := match project st.cfg obj with
      | none => if ev == WatchEvent.deleted then adel id st.latest else st.latest
      | some _ => if ev == WatchEvent.deleted then adel id st.latest else aset id obj st.latest
    ({ st with cache := r.1, ckTab := tab, known := sp.1, latest := latest, specFired := sp.2,
               specFr := if st.cfg.filter.isSome then project st.cfg obj else none,
               specFrDefined := (project st.cfg obj).isSome },
     if quiet then s!"fired={fired}" else s!"fired={fired} cache={cs}")
  | _, _, _ => (st, "bad-op")

def step (st : St) (toks : List String) : St × String :=
  match toks with
  | "cfg" :: "v0" :: rest =>
    -- a legacy binding: `event: [add|update|delete …]`; keepFullObjectsInMemory is always on
    match kv? "event" rest, (kv? "ast" rest).bind optFilter? with
    | some evs, some f =>
      let names := strList evs
      match configuredTypesV0 names with
      | some ts =>
        ({ cfg := { types := ts, filter := f, keep := true }, v0 := some names, ready := true }, "ok")
      | none => ({ v0 := some names }, "err")
    | _, _ => (st, "bad-op")
  | "cfg" :: rest =>
    match (kv? "exec" rest).bind optTypes?, (kv? "watch" rest).bind optTypes?, kv? "keep" rest,
          (kv? "ast" rest).bind optFilter? with
    | some ex, some wa, some k, some f =>
      ({ cfg := { types := configuredTypes ex wa, filter := f, keep := k == "1" },
         exec := ex, watch := wa, ready := true }, "ok")
    | _, _, _, _ => (st, "bad-op")
  | "types" :: [] =>
    -- Monitor.EventTypes of the loaded binding (model of ConvertAndCheck + WithEventTypes)
    if !st.ready then (st, "bad-op") else (st, showTypes st.cfg.types)
  | "oracle" :: "types" :: [got] =>
    -- the property: an event type is in the monitor's list iff the binding lists it
    match (strList got).mapM WatchEvent.ofString? with
    | none => (st, "bad-op")
    | some g =>
      let bad := [WatchEvent.added, .modified, .deleted].filter
        (fun ev => decide (ev ∈ g) != specListed st ev)
      if bad.isEmpty then (st, "true")
      else (st, s!"false want-listed={showTypes (specCfg st).types}")
  | "defaults" :: [] =>
    (st, String.intercalate "," (defaultTypes.map WatchEvent.toString))
  | "jq" :: [o] =>
    match json? o, st.cfg.filter with
    | some obj, some f => (st, match f.eval obj with | some v => s!"fr={v.print}" | none => "err")
    | _, _ => (st, "bad-op")
  | "load" :: rest =>
    if !st.ready then (st, "bad-op") else
    match rest.mapM parseKV with
    | none => (st, "bad-op")
    | some objs =>
      match load st.cfg cks objs with
      | none => (st, "err")
      | some c =>
        let (tab, s) := showCache st.ckTab c
        let known := objs.foldr (fun (id, o) acc =>
          match project st.cfg o with | some p => aset id p acc | none => acc) []
        let latest := objs.foldr (fun (id, o) acc => aset id o acc) []
        ({ st with cache := c, ckTab := tab, known := known, latest := latest }, s!"cache={s}")
  | ["ev", t, id, o] => evStep st false t id o
  -- `evq`: the same change, the cache is not part of the answer (a batch observed at its end: the
  -- replay of the informer's initial list in cluster mode); `cache` ends the batch
  | ["evq", t, id, o] => evStep st true t id o
  | ["cache"] =>
    if !st.ready then (st, "bad-op") else
    let (tab, cs) := showCache st.ckTab st.cache
    ({ st with ckTab := tab }, s!"cache={cs}")
  | "oracle" :: "fired" :: rest =>
    -- the property: the change triggered iff the spec says so; the event carries the projection of
    -- the very object delivered
    match kv? "got" rest, kv? "fr" rest with
    | some got, some fr =>
      let want := if st.specFired then "1" else "0"
      if got != want then (st, s!"false want-fired={want}")
      else if st.specFired && st.specFrDefined && fr != showOptJ st.specFr then (st, s!"false want-fr={showOptJ st.specFr}")
      else (st, "true")
    | _, _ => (st, "bad-op")
  | "oracle" :: "snap" :: rest =>
    -- suppressed changes still update what snapshots show: every live object with its last state
    let want := specSnap st
    if rest == want then (st, "true") else (st, "false want=" ++ String.intercalate " " want)
  | "oracle" :: "defaults" :: [got] =>
    if got == "Added,Modified,Deleted" then (st, "true") else (st, "false want=Added,Modified,Deleted")
  | _ => (st, "bad-op")

/-- Several bindings of one hook (each with its own informer, all fed by the same shared informer):
`bind k` makes binding `k` the current one; every other line goes to the current binding. -/
structure Multi where
  cur : Nat := 0
  st : St := {}
  saved : List (Nat × St) := []
  fs : Snapshot.FStore := []   -- the operator's FactoryStore (cluster cases: `attach k` / `stop k`)

/-- all bindings of a hook have the same kind, namespace and selectors: one factory index -/
def hookIdx : Snapshot.Key := ⟨0, 0, 0⟩

/-- the bindings (numbers < 8) the store serves: a stored factory carrying their registration -/
def showServed (fs : Snapshot.FStore) : String :=
  let l := (List.range 8).filter (fun k => Snapshot.fsServed fs k hookIdx)
  "served=" ++ (if l.isEmpty then "-" else String.intercalate "," (l.map toString))

def stepMulti (m : Multi) (toks : List String) : Multi × String :=
  match toks with
  | ["bind", k] =>
    match k.toNat? with
    | none => (m, "bad-op")
    | some k =>
      if k == m.cur then (m, "ok") else
      let saved := aset m.cur m.st m.saved
      ({ m with cur := k, st := (aget k saved).getD {}, saved := saved }, "ok")
  | ["attach", k] =>
    -- `resourceInformer.start()` → `FactoryStore.Start`
    match k.toNat? with
    | none => (m, "bad-op")
    | some k => let fs := Snapshot.fsStart m.fs k hookIdx; ({ m with fs := fs }, showServed fs)
  | ["stop", k] =>
    -- the binding's context ends → `FactoryStore.Stop`
    match k.toNat? with
    | none => (m, "bad-op")
    | some k => let fs := Snapshot.fsStop m.fs k hookIdx; ({ m with fs := fs }, showServed fs)
  | _ =>
    let r := step m.st toks
    ({ m with st := r.1 }, r.2)

def suite : Suite Multi := { init := {}, step := stepMulti }

end ShellOp.Drv.C08
