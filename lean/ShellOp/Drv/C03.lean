import ShellOp.Drv.Worker
import ShellOp.Model.Routing
import ShellOp.Model.WaitHead
/-! Line-protocol suite for C03: the shared worker suite (`Drv/Worker`) plus the op `schedfan`
(`Model/Routing`: the links map of the real schedule controller and the fan-out of one tick). -/
namespace ShellOp.Drv.C03
open ShellOp ShellOp.Util

/-- `name/entry/crontab/queue`, queue `-` = no `queue` key -/
def binding? (s : String) : Option Routing.SchedBinding :=
  match s.splitOn "/" with
  | [n, e, c, q] => some ⟨n, e, c, if q == "-" then "" else q⟩
  | _ => none

def sortStrs (l : List String) : List String := (l.toArray.qsort (· < ·)).toList

/-- A change of queue `q` made through the queue's public API by somebody who is not its worker
(AddFirst, Remove, Filter of a user of the queue package). Not a label of the proven step machine: the
driver edits the items, the worker's later steps then read what is there, as the code does. -/
def extItems (st : Worker.St) (q : Nat) (f : Queue.Items → Queue.Items) : Worker.St × String :=
  match st.s.qs q with
  | none => (st, "bad-op")
  | some qs =>
    let s' : ShellOp.Worker.State := { st.s with qs := ShellOp.Worker.upd st.s.qs q { qs with items := f qs.items } }
    ({ st with s := s' }, Worker.obs s')

/-- `e:items` — one head check of the wait loop: expired?, what the queue held -/
def look? (s : String) : Option WaitHead.Look :=
  match s.splitOn ":" with
  | [e, its] => (Worker.items? its).map fun i => ⟨e == "1", i, i⟩
  | _ => none

def step (st : Worker.St) (toks : List String) : Worker.St × String :=
  match toks with
  | "waithead" :: args =>
    -- waitForTask over what the queue held at each of its looks (Model/WaitHead): the task it returns
    match (kv? "sleep" args).bind String.toNat?, (kv? "first" args).bind Worker.items?, kv? "looks" args with
    | some sleep, some first, some ls =>
      let ls := if ls == "-" then [] else ls.splitOn ";"
      match ls.mapM look? with
      | some looks => match WaitHead.waitForTask sleep ⟨true, first, first⟩ looks with
        | some (some t) => (st, toString t)
        | some none => (st, "nil")
        | none => (st, "waiting")
      | none => (st, "bad-op")
    | _, _, _ => (st, "bad-op")
  | ["ext", "addfirst", q, t] => match q.toNat?, t.toNat? with
    | some q, some t => extItems st q (fun its => Queue.addFirst its t)
    | _, _ => (st, "bad-op")
  | ["ext", "remove", q, t] => match q.toNat?, t.toNat? with
    | some q, some t => extItems st q (fun its => (Queue.remove its t).2)
    | _, _ => (st, "bad-op")
  | ["ext", "filter", q, keep] => match q.toNat?, natList? keep with
    | some q, some keep => extItems st q (fun its => Queue.filter its (fun x => keep.contains x))
    | _, _ => (st, "bad-op")
  | "convkube" :: args =>
    -- the version-1 converter of a kubernetes binding: queue / waitForSynchronization from the two keys as written
    match kv? "q" args, kv? "wfs" args with
    | some q, some w =>
      let r := Routing.convKube (if q == "-" then "" else q) (if w == "-" then "" else w)
      (st, s!"{if r.1 == "" then "<empty>" else r.1}/{r.2}")
    | _, _ => (st, "bad-op")
  | "oracle" :: "compacted" :: args =>
    -- the handler of queue q dropped the tasks `drop` from its queue (Filter) while the consumer delivered
    -- `ts` (whatever the interleaving of the two): the queue holds its old tasks that were not dropped, in
    -- their old order, followed by the delivered tasks named q in receive order
    match (kv? "q" args).bind String.toNat?, (kv? "before" args).bind Worker.items?, (kv? "drop" args).bind natList?,
          (kv? "ts" args).bind Worker.pairs?, (kv? "after" args).bind Worker.items? with
    | some q, some before, some drop, some ts, some after =>
      let kept := before.filter fun x => match x with
        | some t => !(drop.contains t)
        | none => true
      let want := kept ++ (ts.filter (·.1 == q)).map (fun x => some x.2)
      (st, if after == want then "true" else s!"false want={Worker.showItems want}")
    | _, _, _, _, _ => (st, "bad-op")
  | "oracle" :: "orderkept" :: args =>
    -- queues run dry: the executions of a queue are its arrivals in receive order, minus the tasks a
    -- handler dropped from the queue (combined into the task it was running)
    match (kv? "q" args).bind natList?, (kv? "drop" args).bind natList?, (kv? "ev" args).bind Worker.trace? with
    | some qs, some drop, some log =>
      let bad := qs.filter fun q =>
        Worker.dedupAdj (ShellOp.Worker.starts q log) != (ShellOp.Worker.arrivals q log).filter (fun t => !(drop.contains t))
      (st, if bad.isEmpty then "true" else s!"false execution-order-differs-from-arrival-order-in-queues-{showNats bad}")
    | _, _, _ => (st, "bad-op")
  | "oracle" :: "untouched" :: args =>
    -- a hook execution that is not a task of any queue (admission / conversion request, answered by the
    -- webhook goroutine) ran: queue q holds exactly what it held before
    match kv? "q" args, (kv? "before" args).bind Worker.items?, (kv? "after" args).bind Worker.items? with
    | some q, some before, some after =>
      (st, if after == before then "true" else s!"false queue-{q}-changed-by-a-request-that-is-not-its-task")
    | _, _, _ => (st, "bad-op")
  | ["filterdeliver", q, keep, ts] =>
    -- handlerFilter, then one pass of the consumer (the queue lock serialises the two)
    match q.toNat?, natList? keep, Worker.pairs? ts with
    | some q, some keep, some ts =>
      match ShellOp.Worker.step st.cfg st.s (.handlerFilter q 0 keep) with
      | some s1 => Worker.apply { st with s := s1 } (.deliver ts)
      | none => (st, "disabled " ++ Worker.obs st.s)
    | _, _, _ => (st, "bad-op")
  | ["godeliver", q, ts] =>
    -- one pass of the consumer, then the worker's step: appends at the tail commute with what the worker does
    -- at the head (the queue is not empty, or the step only applies a plain result)
    match q.toNat?, Worker.pairs? ts with
    | some q, some ts =>
      match ShellOp.Worker.step st.cfg st.s (.deliver ts) with
      | some s1 => match Worker.advance st.cfg s1 q .step with
        | some s' => ({ st with s := s' }, Worker.obs s')
        | none => (st, "disabled " ++ Worker.obs st.s)
      | none => (st, "disabled " ++ Worker.obs st.s)
    | _, _ => (st, "bad-op")
  | "schedfan" :: args =>
    -- EnableScheduleBindings over the bindings the loader produced, then HandleEvent for one crontab:
    -- the (binding, queue) infos, sorted (Go walks the map in any order)
    match kv? "v" args, kv? "bs" args, kv? "tick" args with
    | some v, some bs, some c =>
      match (strList bs).mapM binding? with
      | some bs =>
        let out := Routing.handleEvent (Routing.enable (v == "v0") bs) c
        (st, showStrs (sortStrs (out.map fun x => x.1 ++ "=" ++ x.2)))
      | none => (st, "bad-op")
    | _, _, _ => (st, "bad-op")
  | _ => Worker.step st toks

def suite : Suite Worker.St := { init := {}, step := step }
end ShellOp.Drv.C03
