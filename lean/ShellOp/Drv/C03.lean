import ShellOp.Drv.Worker
import ShellOp.Model.Routing
/-! Line-protocol suite for C03: the shared worker suite (`Drv/Worker`) plus the op `schedfan`
(`Model/Routing`: the links map of the real schedule controller and the fan-out of one tick). -/
namespace ShellOp.Drv.C03
open ShellOp ShellOp.Util

/-- `name/entry/crontab/queue`, queue `-` = no `queue` key -/
def binding? (s : String) : Option Routing.SchedBinding :=
  match s.splitOn "/" with
  | [n, e, c, q] => some ⟨n, e, c, if q == "-" then "" else q⟩
  | _ => none

def sortStrs (l : List String) : List String := (l.toArray.qsort (· < ·)).toList

def step (st : Worker.St) (toks : List String) : Worker.St × String :=
  match toks with
  | "schedfan" :: args =>
    -- EnableScheduleBindings over the bindings the loader produced, then HandleEvent for one crontab:
    -- the (binding, queue) infos, sorted (Go walks the map in any order)
    match kv? "v" args, kv? "bs" args, kv? "tick" args with
    | some v, some bs, some c =>
      match (strList bs).mapM binding? with
      | some bs =>
        let out := Routing.handleEvent (Routing.enable (v == "v0") bs) c
        (st, showStrs (sortStrs (out.map fun x => x.1 ++ "=" ++ x.2)))
      | none => (st, "bad-op")
    | _, _, _ => (st, "bad-op")
  | _ => Worker.step st toks

def suite : Suite Worker.St := { init := {}, step := step }
end ShellOp.Drv.C03
