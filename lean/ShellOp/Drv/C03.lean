import ShellOp.Drv.Worker
/-! Line-protocol suite for C03: the shared worker suite (`Drv/Worker`). -/
namespace ShellOp.Drv.C03
def suite := ShellOp.Drv.Worker.suite
end ShellOp.Drv.C03
