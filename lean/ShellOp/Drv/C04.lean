import ShellOp.Util
import ShellOp.Model.Retry
import ShellOp.Model.HookOutput
import ShellOp.Model.Wait
import ShellOp.Model.Payload
import ShellOp.Generated.Facts
/-! Line-protocol suite for C04 (retry / back-off / allowFailure). Core-only.

Part 1 — `CalculateDelay`:
```
facts                                   → expCount=… max=… rand=… factor=… trunc=… init=… stale=…   (generated Facts)
delay init=<ns> k=<k> got=<ns>          → member | not-member          (got ∈ {calcDelay init k r | r < rand})
oracle delay init=<ns> k=<k> got=<ns>   → true | false …               (init ≤ got ≤ max)
```
Part 2 — worker + handler on the real operator:
```
hookver hook=<h> v=<0|1>                → ok
backoff init=<ns> step=<ns>             → ok      (the shortened ExponentialBackoffFn: init + k*step)
task <id> q=<q> hook=<h> type=<n> af=<0|1> bt=<n> grp=<g> eos=<0|1> ctxs=<b:t:g;…> [at=head] → af=… grp=… queue=<ids>
begin q=<q>                             → idle | noexec task=<id> | norun task=<id> queue=… | exec task=<id> hook=<h> ctxs=… queue=…
end q=<q> ok=<0|1>                      → status=<success|fail> fc=<n> sleep=<ns> queue=<ids>
oracle begin q=<q> task=<id> gap=<ns> ctxs=…  → retry of a failed task: same task, gap ≥ its back-off ≥ initial, the contexts of the failed run shown again (up to group compaction)
oracle nocombine q=<q> ctxs=… queue=<ids>  → (C07.6) ungrouped Synchronization head: own contexts, queue untouched
oracle end q=<q> ok=… task=<id> ctxs=… sleep=<ns> after=<id>,<af>,<ctxs>|… [unapplied=<n|->]  → the property clauses
    (unapplied = operations of the metrics file whose effect the harness did not find in the registry after the run)
```
`pay=<ev>/<objs>/<snaps>;…` on the `oracle begin` / `oracle end` lines: per context of `ctxs`, what the
hook's context file carried (`Payload.Pay`; lists of numbers the harness interned: watch event and
object+filterResult of an Event, members of `objects`, entries of `snapshots`). The retry of a failed run
must show every context of the failed run again WITH what it carried (`Payload.shownAgain`,
`Payload.eventsKept`): Event members identical, objects / snapshot entries a superset (they are re-read
from the monitors; the harness only ever creates objects).
`cancel q=<q>` → `wait=<0|1> pending=<0|1>`: a `CancelTaskDelay()` call (the harness makes it only while
the handler of the queue runs: no wait in progress, nothing stays pending). `exit=sig<n>`: the hook
process was terminated by signal n (no exit status).
Instead of `ok=<0|1>` the `end` / `oracle end` lines may carry what the hook left behind:
`exit=<code> metrics=<hex|-> patch=<hex|-> papply=<0|1>` (file texts as hex bytes; `papply` = the
operations of the patch file, if it is parsable, can be applied to the cluster). Whether that is a
failed run is then decided here, from the texts (`HookOutput.hookOk`): exit code 0, the metrics file a
well-formed stream of valid metric operations, the patch file a well-formed stream of valid
operation specs. A patch text this driver cannot classify is answered `bad-op`.
Part 3 — the parsers alone:
```
metricsfile hex=<hex>                   → ok n=<operations> | invalid | err
patchfile hex=<hex>                     → ok | err | undecided
```
-/
namespace ShellOp.Drv.C04
open ShellOp ShellOp.Util ShellOp.Combine ShellOp.Retry

/-- The stop-combine predicate of the code as it is in the repository (after the repair:
`stopCombineOnAllowFailureChange(hookMeta)`; before it the code passed `nil`). -/
def codeStopOf : Task → Option (Task → Bool) := stopOnAllowFailureChangeOrSkippedSync

def params : Backoff.Params := Retry.realParams

structure QSt where
  s : Retry.State := {}
  running : Option (Retry.State × List Task) := none   -- state at `begin`, tasks appended since
  lastFailed : Option (Nat × Nat) := none              -- (task id, back-off) of a failure that must be retried
  lastObs : List Ctx := []                             -- contexts the hook showed in the last failed run
  lastPay : Option (List (Ctx × Payload.Pay)) := none  -- … with what the context file carried for each

structure St where
  versions : List (Nat × Nat) := []
  boInit : Nat := 0
  boStep : Nat := 0
  queues : List (Nat × QSt) := []

def St.cfg (st : St) : Cfg :=
  { stopOf := codeStopOf
    version := fun h => ((st.versions.find? (·.1 == h)).map (·.2)).getD 1
    backoff := fun k _ => st.boInit + k * st.boStep }

def St.q (st : St) (n : Nat) : QSt := ((st.queues.find? (·.1 == n)).map (·.2)).getD {}

def St.setQ (st : St) (n : Nat) (q : QSt) : St :=
  { st with queues := (n, q) :: st.queues.filter (·.1 != n) }

def parseCtx (s : String) : Option Ctx :=
  match s.splitOn ":" with
  | [b, t, g] => do some { binding := ← b.toNat?, typ := ← t.toNat?, group := ← g.toNat? }
  | _ => none

def parseCtxs (s : String) : Option (List Ctx) :=
  if s == "-" || s == "" then some [] else (s.splitOn ";").mapM parseCtx

def showCtxs (l : List Ctx) : String :=
  if l.isEmpty then "-" else String.intercalate ";" (l.map fun c => s!"{c.binding}:{c.typ}:{c.group}")

def parsePay (s : String) : Option Payload.Pay :=
  match s.splitOn "/" with
  | [e, o, n] => do some { ev := ← natList? e, objs := ← natList? o, snaps := ← natList? n }
  | _ => none

/-- `pay=…` aligned with the contexts (`none`: malformed, or not one entry per context). -/
def parsePays (s : String) (ctxs : List Ctx) : Option (List (Ctx × Payload.Pay)) := do
  let ps ← if s == "-" || s == "" then some [] else (s.splitOn ";").mapM parsePay
  if ps.length != ctxs.length then none else some (ctxs.zip ps)

def showPay (p : Payload.Pay) : String := s!"{showNats p.ev}/{showNats p.objs}/{showNats p.snaps}"

/-- The hook's view of contexts: a grouped context has `type: Group` (2) whatever it was. -/
def hookView (l : List Ctx) : List Ctx := l.map fun c => if c.group != 0 then { c with typ := 2 } else c

/-- A v0 hook sees only `{"binding": …}` (no type, no group) for non-kubernetes contexts. -/
def hookViewV (version : Nat) (l : List Ctx) : List Ctx :=
  if version == 0 then l.map fun c => { c with typ := 4, group := 0 } else hookView l

def showIds (l : List Task) : String := showNats (l.map (·.id))

def bool? : String → Option Bool
  | "0" => some false | "1" => some true | _ => none

def b01 (b : Bool) : String := if b then "1" else "0"

def hexVal (c : Char) : Option Nat :=
  if c.isDigit then some (c.toNat - '0'.toNat)
  else if 'a' ≤ c && c ≤ 'f' then some (c.toNat - 'a'.toNat + 10)
  else none

def unhexL : List Char → Option (List Char)
  | [] => some []
  | a :: b :: r => do
    let x ← hexVal a
    let y ← hexVal b
    let t ← unhexL r
    some (Char.ofNat (16 * x + y) :: t)
  | _ => none

/-- File text from its hex bytes (`-` = empty). -/
def unhex (s : String) : Option (List Char) :=
  if s == "-" || s == "" then some [] else unhexL s.toList

def natKv (key : String) (rest : List String) (dflt : Nat) : Option Nat :=
  match kv? key rest with
  | none => some dflt
  | some v => v.toNat?

def parseTask (id : String) (rest : List String) : Option Task := do
  let id ← id.toNat?
  let queue ← natKv "q" rest 0
  let hook ← natKv "hook" rest 0
  let typ ← natKv "type" rest 0
  let af ← bool? ((kv? "af" rest).getD "0")
  let btype ← natKv "bt" rest 1
  let group ← natKv "grp" rest 0
  let eos ← bool? ((kv? "eos" rest).getD "1")
  let ctxs ← parseCtxs ((kv? "ctxs" rest).getD "-")
  let mons ← natList? ((kv? "mons" rest).getD "-")
  some { id, hook, typ, queue, allowFailure := af, btype, group, execOnSync := eos, ctxs, mons }

/-- `after=<id>,<af>,<ctxs>|…` -/
def parseAfter (s : String) : Option (List Task) :=
  if s == "-" || s == "" then some [] else
    (s.splitOn "|").mapM fun part =>
      match part.splitOn "," with
      | [id, af, ctxs] => do
        some { id := ← id.toNat?, allowFailure := ← bool? af, ctxs := ← parseCtxs ctxs }
      | _ => none

/-- `exit=<code>` (the process exited with this status) or `exit=sig<n>` (terminated by signal n). -/
def procEnd? (s : String) : Option HookOutput.ProcEnd :=
  if s.startsWith "sig" then (s.drop 3).toNat?.map .signaled else s.toNat?.map .exited

/-- The outcome of a hook run as the line states it: `ok=<0|1>`, or decided from the exit code and
the output files (`none`: malformed line or a patch text outside the decided domain). -/
def outcome? (rest : List String) : Option Bool :=
  match kv? "metrics" rest with
  | none => bool? ((kv? "ok" rest).getD "1")
  | some m => do
    let exit ← procEnd? ((kv? "exit" rest).getD "0")
    let mt ← unhex m
    let pt ← unhex ((kv? "patch" rest).getD "-")
    let papply ← bool? ((kv? "papply" rest).getD "1")
    let pv ← HookOutput.patchVerdict pt
    some (HookOutput.runOk exit mt (pv && (papply || (HookOutput.skipWs pt).isEmpty)))

/-- Items of the queue as the code sees them while a hook is running. -/
def curItems (cfg : Cfg) (q : QSt) : List Task :=
  match q.running with
  | none => q.s.items
  | some (s0, app) =>
    match s0.items with
    | [] => app
    | t :: _ =>
      if t.typ != 0 || !t.hasMeta then s0.items ++ app
      else (taskHandleHookRun cfg s0.items t true).items ++ app

/-- The property clauses on one observed hook-run end (see the header). `s0` = queue state when the
handler was entered, `app` = tasks appended while the hook ran. -/
def oracleEnd (view : List Ctx → List Ctx) (s0 : Retry.State) (initial : Nat) (ok : Bool) (task : Nat)
    (ctxs : List Ctx) (sleep : Nat) (after : List Task) (unapplied : Nat := 0) : String :=
  match s0.items with
  | [] => "bad-op nothing-to-run"
  | t :: _ =>
    if task != t.id then s!"false not-the-head-task want-task={t.id}"
    -- "… or its metric output cannot be … applied": observed in the registry, not decided by the model —
    -- operations of the metrics file left no effect, yet the task of a binding that does not allow
    -- failure is gone from the queue (no retry, the next task runs)
    else if unapplied != 0 && !t.allowFailure && !after.any (·.id == t.id) then
      s!"false metric-output-not-applied-but-task-left-the-queue operations-without-effect={unapplied}"
    else if ok then
      if after.any (·.id == t.id) then "false succeeded-task-still-queued" else "true"
    else
      -- a failed run
      let lost := (s0.items.filter (fun b => !b.allowFailure)).flatMap fun b =>
        b.ctxs.filter (fun c => !covered c (pendingNF after))
      -- binding names are not unique: contexts of different tasks can be equal. An ungrouped context
      -- is never compacted away, so it must be there as many times as before.
      let nfBefore := pendingNF s0.items
      let nfAfter := pendingNF after
      let fewer := (nfBefore.filter fun c => c.group == 0 && nfBefore.count c > nfAfter.count c).eraseDups
      if !lost.isEmpty then s!"false no_discard lost={showCtxs lost}"
      else if !fewer.isEmpty then s!"false no_discard fewer-copies-of={showCtxs fewer}"
      else if t.allowFailure then
        if after.any (·.id == t.id) then "false allowFailure-task-not-dropped"
        else if sleep != 0 then "false allowFailure-but-backoff"
        else "true"
      else
        match after with
        | h :: _ =>
          if h.id != t.id then "false failed-task-not-kept-at-head"
          else if view h.ctxs != ctxs then s!"false retried-contexts-differ want={showCtxs ctxs}"
          else if sleep < initial then "false backoff-shorter-than-initial"
          else "true"
        | [] => "false failed-task-not-kept-at-head"

def step (st : St) (toks : List String) : St × String :=
  match toks with
  | ["facts"] =>
    (st, s!"expCount={Facts.c04ExpCount} max={Facts.c04MaxDelayNs} rand={Facts.c04RandomMs} factor={Facts.c04Factor} init={Facts.c04InitialDelayNs} stale={Facts.c04FactsStale}")
  | "delay" :: rest =>
    match natKv "init" rest 0, natKv "k" rest 0, natKv "got" rest 0 with
    | some i, some k, some g =>
      (st, if Backoff.possible params i k g then "member" else "not-member")
    | _, _, _ => (st, "bad-op")
  | "oracle" :: "delay" :: rest =>
    match natKv "init" rest 0, natKv "k" rest 0, natKv "got" rest 0 with
    | some i, some _, some g =>
      if i > 32000000000 then (st, "bad-op not-in-domain")
      else if g < i then (st, "false shorter-than-initial")
      else if g > 32000000000 then (st, "false longer-than-max")
      else (st, "true")
    | _, _, _ => (st, "bad-op")
  | "hookver" :: rest =>
    match natKv "hook" rest 0, natKv "v" rest 1 with
    | some h, some v => ({ st with versions := (h, v) :: st.versions.filter (·.1 != h) }, "ok")
    | _, _ => (st, "bad-op")
  | "backoff" :: rest =>
    match natKv "init" rest 0, natKv "step" rest 0 with
    | some i, some s => ({ st with boInit := i, boStep := s }, "ok")
    | _, _ => (st, "bad-op")
  | "task" :: id :: rest =>
    match parseTask id rest with
    | none => (st, "bad-op")
    | some t =>
      let q := st.q t.queue
      let atHead := kv? "at" rest == some "head"
      let q' : QSt :=
        match q.running with
        | some (s0, app) => { q with running := some (s0, app ++ [t]) }
        | none =>
          if atHead then { q with s := { q.s with items := t :: q.s.items } }
          else { q with s := Retry.step st.cfg q.s (.append t) }
      let st' := st.setQ t.queue q'
      if atHead then (st', s!"af={b01 t.allowFailure} grp={t.group} eos={b01 t.execOnSync} head")
      else (st', s!"af={b01 t.allowFailure} grp={t.group} ctxs={showCtxs t.ctxs} queue={showIds (curItems st.cfg q')}")
  | "begin" :: rest =>
    match natKv "q" rest 0 with
    | none => (st, "bad-op")
    | some qn =>
      let q := st.q qn
      match q.running, q.s.items with
      | some _, _ => (st, "busy")
      | none, [] => (st, "idle")
      | none, t :: _ =>
        let st' := st.setQ qn { q with running := some (q.s, []) }
        if t.typ != 0 || !t.hasMeta then (st', s!"noexec task={t.id}")
        else
          let h := taskHandleHookRun st.cfg q.s.items t true
          match h.ran with
          | none => (st', s!"norun task={t.id} queue={showIds h.items}")
          | some cs => (st', s!"exec task={t.id} hook={t.hook} ctxs={showCtxs (hookViewV (st.cfg.version t.hook) cs)} queue={showIds h.items}")
  | "cancel" :: rest =>
    -- `CancelTaskDelay()`: while the handler runs no wait loop is in progress; otherwise the worker
    -- is inside `waitForTask` (idle queue or back-off)
    match natKv "q" rest 0 with
    | none => (st, "bad-op")
    | some qn =>
      let f0 : Wait.Flags := { inProgress := !(st.q qn).running.isSome, cancel := false }
      let f := Wait.cancelTaskDelay f0
      (st, s!"wait={b01 f.inProgress} pending={b01 f.cancel}")
  | "metricsfile" :: rest =>
    match (kv? "hex" rest).bind unhex with
    | none => (st, "bad-op")
    | some t =>
      match HookOutput.fromReader t with
      | none => (st, "err")
      | some ops => if ops.all HookOutput.validOp then (st, s!"ok n={ops.length}") else (st, "invalid")
  | "patchfile" :: rest =>
    match (kv? "hex" rest).bind unhex with
    | none => (st, "bad-op")
    | some t =>
      match HookOutput.patchVerdict t with
      | some true => (st, "ok")
      | some false => (st, "err")
      | none => (st, "undecided")
  | "end" :: rest =>
    match natKv "q" rest 0, outcome? rest with
    | some qn, some ok =>
      let q := st.q qn
      match q.running with
      | none => (st, "not-running")
      | some (s0, app) =>
        let s1 := Retry.step st.cfg s0 (.run ok 0)
        let s2 := app.foldl (fun s a => Retry.step st.cfg s (.append a)) s1
        let (status, fc, lastFailed) :=
          match s0.items with
          | [] => ("success", 0, none)
          | t :: _ =>
            if s1.items.any (·.id == t.id) then ("fail", s1.fc t.id, some (t.id, s1.sleep))
            else ("success", s1.fc t.id, none)
        let st' := st.setQ qn { s := s2, running := none, lastFailed := lastFailed, lastObs := q.lastObs, lastPay := q.lastPay }
        let noexec := match s0.items with
          | t :: _ => t.typ != 0 || !t.hasMeta
          | [] => false
        if noexec then (st', "status=success noexec")
        else (st', s!"status={status} fc={fc} sleep={s1.sleep} queue={showIds s2.items}")
    | _, _ => (st, "bad-op")
  | "oracle" :: "begin" :: rest =>
    match natKv "q" rest 0, natKv "task" rest 0, natKv "gap" rest 0, parseCtxs ((kv? "ctxs" rest).getD "-") with
    | some qn, some task, some gap, some ctxs =>
      -- asked after `begin`: `running` holds the state at begin; `lastFailed` the failure before it
      match (st.q qn).lastFailed with
      | none => (st, "true")
      | some (f, bo) =>
        let missing := (st.q qn).lastObs.filter (fun c => !covered c ctxs)
        if task != f then (st, s!"false another-task-ran-before-the-retry want-task={f}")
        else if bo < st.boInit then (st, "false backoff-shorter-than-initial")
        else if gap < bo then (st, s!"false retried-before-backoff-elapsed backoff={bo}")
        else if !missing.isEmpty then (st, s!"false retry-lost-contexts missing={showCtxs missing}")
        else
          -- "the same binding contexts are executed again": also what each context carried
          match (st.q qn).lastPay, kv? "pay" rest with
          | some old, some ps =>
            match parsePays ps ctxs with
            | none => (st, "bad-op pay")
            | some new =>
              match Payload.firstMissing old new with
              | some (c, p) => (st, s!"false retry-shows-other-payload ctx={showCtxs [c]} failed-run-had={showPay p}")
              | none =>
                if !Payload.eventsKept old new then (st, "false retry-shows-fewer-event-contexts")
                else (st, "true")
          | _, _ => (st, "true")
    | _, _, _, _ => (st, "bad-op")
  | "oracle" :: "nocombine" :: rest =>
    -- C07.6 on the real operator, asked after `begin`: an ungrouped kubernetes Synchronization head
    -- task is executed with its own contexts only and nothing leaves the queue
    match natKv "q" rest 0, parseCtxs ((kv? "ctxs" rest).getD "-"), natList? ((kv? "queue" rest).getD "-") with
    | some qn, some ctxs, some ids =>
      match (st.q qn).running with
      | some (s0, _) =>
        match s0.items with
        | t :: _ =>
          if !(t.btype == 2 && t.group == 0 && t.isSync) then (st, "bad-op not-an-ungrouped-synchronization")
          else if ctxs != hookView t.ctxs then (st, s!"false foreign-contexts want={showCtxs (hookView t.ctxs)}")
          else if ids != s0.items.map (·.id) then (st, s!"false tasks-left-the-queue want={showIds s0.items}")
          else (st, "true")
        | [] => (st, "bad-op nothing-to-run")
      | none => (st, "bad-op not-running")
    | _, _, _ => (st, "bad-op")
  | "oracle" :: "end" :: rest =>
    match natKv "q" rest 0, outcome? rest, natKv "task" rest 0,
          parseCtxs ((kv? "ctxs" rest).getD "-"), natKv "sleep" rest 0, parseAfter ((kv? "after" rest).getD "-"),
          natKv "s0" rest 0 with
    | some qn, some ok, some task, some ctxs, some sleep, some after, some _ =>
      -- asked right before `end`: `running` still holds the state at begin
      match (st.q qn).running with
      | none => (st, "bad-op not-running")
      | some (s0, _) =>
        -- remember what the hook was shown: the retry must show it again (up to group compaction)
        let pays := (kv? "pay" rest).bind (parsePays · ctxs)
        if (kv? "pay" rest).isSome && pays.isNone then (st, "bad-op pay") else
        let st' := st.setQ qn { st.q qn with lastObs := if ok then [] else ctxs, lastPay := if ok then none else pays }
        let ver := match s0.items with
          | t :: _ => st.cfg.version t.hook
          | [] => 1
        let unapplied := ((kv? "unapplied" rest).bind String.toNat?).getD 0
        (st', oracleEnd (hookViewV ver) s0 st.boInit ok task ctxs sleep after unapplied)
    | _, _, _, _, _, _, _ => (st, "bad-op")
  | _ => (st, "bad-op")

def suite : Suite St := { init := {}, step := step }

end ShellOp.Drv.C04
