import ShellOp.Util
import ShellOp.Model.Worker
/-!
Line-protocol suite shared by C03 and C17 (queue workers, queue set, consumer, shutdown). Core-only.

Ordinary ops are labels of `ShellOp.Worker.step` (macro-steps from one yield point of the real worker
to the next); the answer is the state of every queue. `oracle` lines carry the event trace the real
code showed and are answered by the specification predicates of `Model/Worker` (the statements of
the C03 / C17 theorems specialised to that one trace).
-/
namespace ShellOp.Drv.Worker
open ShellOp ShellOp.Util ShellOp.Worker

structure St where
  s : State := {}
  cfg : Cfg := {}
  bad : Bool := false

def showStatus : QStatus → String
  | .idle => "idle" | .noHandler => "nohandler" | .run => "run" | .sleepFail => "sleepfail"
  | .repeatHead => "repeat" | .sleepFor => "sleepfor" | .waiting => "waiting"
  | .delayLeft => "delayleft" | .stop => "stop"

def showItems (q : Queue.Items) : String :=
  if q.isEmpty then "-" else String.intercalate "," (q.map showOptNat)

def showPc : Pc → String
  | .loopTop _ => "loop" | .afterCheck1 _ => "afterCheck" | .shortcut => "shortcut"
  | .waitLoop _ _ => "beforeSelect" | .tickRecv _ _ => "tickRecv" | .ticked _ _ => "tick"
  | .waitGet _ => "waitGet" | .returned _ => "returned" | .running t => s!"run:{t}"
  | .handled _ _ => "afterHandler" | .apply _ _ => "apply" | .stopped => "exit"

def showQ (s : State) (q : QName) : String :=
  match s.qs q with
  | none => s!"{q}[absent]"
  | some qs =>
    let ws := if qs.workers.isEmpty then "-" else String.intercalate "+" (qs.workers.map showPc)
    s!"{q}[items={showItems qs.items} st={showStatus qs.status} at={ws}]"

def obs (s : State) : String :=
  if s.names.isEmpty then "empty" else String.intercalate " " (s.names.map (showQ s))

/-- pcs at which the real worker is observable (parked at a yield point, inside the handler, gone). -/
def visible : Pc → Bool
  | .loopTop _ | .afterCheck1 _ | .waitLoop _ _ | .ticked _ _ | .running _ | .handled _ _ | .stopped => true
  | _ => false

def pcOf (s : State) (q : QName) : Option Pc := (s.qs q).bind (fun qs => qs.workers[0]?)

/-- Let worker 0 of `q` run from its yield point to the next observable position. -/
def advance (cfg : Cfg) (s : State) (q : QName) (first : WAct) : Option State := do
  let mut s ← step cfg s (.w q 0 first)
  for _ in [0:8] do
    match pcOf s q with
    | some pc => if visible pc then return s else s ← step cfg s (.w q 0 .step)
    | none => return s
  return s

def status? : String → Option Queue.Status
  | "success" => some .success | "fail" => some .fail
  | "repeat" => some .repeat | "keep" => some .keep | _ => none

/-- `q:t,q:t` -/
def pairs? (s : String) : Option (List (QName × Queue.Id)) :=
  (strList s).mapM fun x => match x.splitOn ":" with
    | [a, b] => do some ((← a.toNat?), (← b.toNat?))
    | _ => none

def point? : String → Option Point
  | "L" => some .loop | "A" => some .afterCheck | "B" => some .beforeSelect
  | "T" => some .tick | "F" => some .afterHandler | _ => none

/-- One event: `r1:5` recv, `d1:5` drop, `p1:L` point, `s1:5:5` / `s1:5:nil` start, `f1:5` fin, `x1` exit, `S` stop. -/
def ev? (s : String) : Option Ev :=
  if s == "S" then some .stop else
  let body := (s.drop 1).toString
  let parts := body.splitOn ":"
  match (s.take 1).toString, parts with
  | "r", [q, t] => do some (.recv (← q.toNat?) (← t.toNat?))
  | "d", [q, t] => do some (.drop (← q.toNat?) (← t.toNat?))
  | "p", [q, p] => do some (.pt (← q.toNat?) (← point? p))
  | "s", [q, t, h] => do
    let hd ← if h == "nil" then some none else h.toNat?.map some
    some (.start (← q.toNat?) (← t.toNat?) hd)
  | "f", [q, t] => do some (.fin (← q.toNat?) (← t.toNat?))
  | "x", [q] => do some (.exit (← q.toNat?))
  | _, _ => none

def showPoint : Point → String
  | .loop => "L" | .afterCheck => "A" | .beforeSelect => "B" | .tick => "T" | .afterHandler => "F"

def showEv : Ev → String
  | .recv q t => s!"r{q}:{t}" | .drop q t => s!"d{q}:{t}" | .pt q p => s!"p{q}:{showPoint p}"
  | .start q t hd => s!"s{q}:{t}:{showOptNat hd}" | .fin q t => s!"f{q}:{t}" | .exit q => s!"x{q}"
  | .stop => "S"

/-- the trace as the harness writes it: oldest first -/
def trace? (s : String) : Option (List Ev) := ((strList s).mapM ev?).map List.reverse

def showLog (log : List Ev) : String := showStrs (log.reverse.map showEv)

/-- adjacent duplicates removed (a failed or repeated task is handed to the handler again) -/
def dedupAdj : List Nat → List Nat
  | [] => []
  | [x] => [x]
  | x :: y :: rest => if x == y then dedupAdj (y :: rest) else x :: dedupAdj (y :: rest)

/-- number of handler returns of `b` while the oldest still-open-or-closed execution of `a` lasted:
counted between the first `start a` and the first `fin a` after it (chronological list). -/
def finsWhile (a b : QName) : List Ev → Nat
  | [] => 0
  | .start q _ _ :: rest => if q == a then go rest else finsWhile a b rest
  | _ :: rest => finsWhile a b rest
where go : List Ev → Nat
  | [] => 0
  | .fin q _ :: rest => if q == a then 0 else (if q == b then 1 else 0) + go rest
  | _ :: rest => go rest

def items? (s : String) : Option (List (Option Nat)) :=
  (strList s).mapM (fun x => if x == "nil" then some none else x.toNat?.map some)

/-- order-insensitive comparison (several bindings of one hook may carry the same name) -/
def sortedStrs (l : List String) : List String := (l.toArray.qsort (· < ·)).toList

def oracle (rest : List String) : String :=
  match rest with
  | "log" :: args =>
    -- every log predicate of C03 and C17 on the trace the implementation showed
    match (kv? "q" args).bind natList?, (kv? "ev" args).bind trace? with
    | some qs, some log =>
      let fails := qs.foldl (fun acc q =>
        acc ++ (if noOverlap q log then [] else [s!"overlap-in-queue-{q}"])
            ++ (if cleanStop q log then [] else [s!"queue-{q}-started-a-task-after-stop-it-had-not-picked"])
            ++ (if promptExit q log then [] else [s!"queue-{q}-worker-went-on-after-its-handler-returned"])
            ++ (if exitFinal q log then [] else [s!"queue-{q}-worker-acted-after-exit"])) []
      let fails := fails ++ (if headFirst log then [] else ["handled-task-is-not-the-head"])
      if fails.isEmpty then "true" else "false " ++ String.intercalate "," fails
    | _, _ => "bad-op"
  | "logfree" :: args =>
    -- free-running workers (no yield points in the trace): the clauses that do not need positions
    match (kv? "q" args).bind natList?, (kv? "ev" args).bind trace? with
    | some qs, some log =>
      let fails := qs.foldl (fun acc q =>
        acc ++ (if noOverlap q log then [] else [s!"overlap-in-queue-{q}"])
            ++ (if exitFinal q log then [] else [s!"queue-{q}-worker-acted-after-exit"])) []
      let fails := fails ++ (if headFirst log then [] else ["handled-task-is-not-the-head"])
      if fails.isEmpty then "true" else "false " ++ String.intercalate "," fails
    | _, _ => "bad-op"
  | "order" :: args =>
    -- plain handlers: the tasks of a queue are executed in the order the consumer placed them
    match (kv? "q" args).bind natList?, (kv? "ev" args).bind trace? with
    | some qs, some log =>
      let bad := qs.filter fun q =>
        let st := dedupAdj (starts q log)
        st != (arrivals q log).take st.length
      if bad.isEmpty then "true" else s!"false execution-order-differs-from-arrival-order-in-queues-{showNats bad}"
    | _, _ => "bad-op"
  | "complete" :: args =>
    -- every placed task was executed (used when the harness ran the queues dry)
    match (kv? "q" args).bind natList?, (kv? "ev" args).bind trace? with
    | some qs, some log =>
      let bad := qs.filter fun q => dedupAdj (starts q log) != arrivals q log
      if bad.isEmpty then "true" else s!"false not-every-task-executed-in-order-in-queues-{showNats bad}"
    | _, _ => "bad-op"
  | "progress" :: args =>
    -- while one execution of queue a was open, queue b completed n executions
    match (kv? "a" args).bind String.toNat?, (kv? "b" args).bind String.toNat?,
          (kv? "n" args).bind String.toNat?, (kv? "ev" args).bind trace? with
    | some a, some b, some n, some log =>
      let k := finsWhile a b log.reverse
      if k ≥ n && n > 0 then "true" else s!"false queue-{b}-completed-{k}-of-{n}-while-queue-{a}-was-blocked"
    | _, _, _, _ => "bad-op"
  | "routing" :: args =>
    -- placement by the consumer: queue q holds its old tasks followed by the delivered tasks named q, in order
    match (kv? "q" args).bind String.toNat?, (kv? "before" args).bind items?, (kv? "ts" args).bind pairs?,
          (kv? "after" args).bind items? with
    | some q, some before, some ts, some after =>
      let want := before ++ (ts.filter (·.1 == q)).map (fun x => some x.2)
      if after == want then "true" else s!"false want={showItems want}"
    | _, _, _, _ => "bad-op"
  | "queueset" :: args =>
    -- the operator created exactly the queues its hooks' configurations name, and main
    match kv? "want" args, kv? "got" args with
    | some w, some g => if w == g then "true" else s!"false queues-created={g}-queues-named-by-the-hooks={w}"
    | _, _ => "bad-op"
  | "opflag" :: args =>
    match kv? "what" args, kv? "ok" args with
    | some w, some o => if o == "true" then "true" else s!"false {w}"
    | _, _ => "bad-op"
  | "queuenames" :: args =>
    -- the loader gives a binding the queue it names, `main` when it names none
    match kv? "cfg" args, kv? "got" args with
    | some cfg, some got =>
      let want := (strList cfg).map fun x => match x.splitOn ":" with
        | [n, q] => n ++ "=" ++ (if q == "-" then "main" else q)
        | _ => x
      if sortedStrs (strList got) == sortedStrs want then "true" else s!"false want={showStrs (sortedStrs want)}"
    | _, _ => "bad-op"
  | "fanout" :: args =>
    -- one received event (a tick of a crontab, a kubernetes event of a monitor): the operator made exactly
    -- one task for every binding the configurations bind to it, each for the queue the binding names
    -- (`main` when it names none). cfg = the bindings as configured, got = the tasks the code made.
    match kv? "cfg" args, kv? "got" args with
    | some cfg, some got =>
      let want := (strList cfg).map fun x => match x.splitOn ":" with
        | [n, q] => n ++ "=" ++ (if q == "-" then "main" else q)
        | _ => x
      if sortedStrs (strList got) == sortedStrs want then "true" else s!"false tasks-wanted={showStrs (sortedStrs want)}"
    | _, _ => "bad-op"
  | "weakstop" :: args =>
    -- free-running workers (no yield points observed): at most one more task per queue after the stop request
    match (kv? "q" args).bind natList?, (kv? "ev" args).bind trace? with
    | some qs, some log =>
      let bad := qs.filter fun q => stopRequested log && (startsAfterStop q log > 1 || !(exitFinal q log))
      if bad.isEmpty then "true" else s!"false more-than-one-task-started-after-stop-in-queues-{showNats bad}"
    | _, _ => "bad-op"
  | "aftershutdown" :: args =>
    -- once Shutdown() has returned no queue starts anything: not for late ticks, not when the hook that was
    -- running returns
    match (kv? "q" args).bind natList?, (kv? "ev" args).bind trace? with
    | some qs, some log =>
      let bad := qs.filter fun q => stopRequested log && startsAfterStop q log > 0
      if bad.isEmpty then "true" else s!"false executions-started-after-Shutdown-returned-in-queues-{showNats bad}"
    | _, _ => "bad-op"
  | "terminated" :: args =>
    -- after the stop request every worker, given its few remaining steps and its handler's return, has exited
    match (kv? "q" args).bind natList?, (kv? "ev" args).bind trace? with
    | some qs, some log =>
      let bad := qs.filter fun q => !(exited q log)
      if bad.isEmpty then "true" else s!"false workers-still-alive-after-stop-in-queues-{showNats bad}"
    | _, _ => "bad-op"
  | "cronstop" :: args =>
    -- the schedule fired before Stop(), and no tick arrived once Stop() had taken effect
    match (kv? "before" args).bind String.toNat?, (kv? "late" args).bind String.toNat? with
    | some b, some l => if b ≥ 1 && l == 0 then "true" else s!"false ticks-before-stop={b}-ticks-after-stop-took-effect={l}"
    | _, _ => "bad-op"
  | "waitreturns" :: args =>
    match kv? "exited" args, kv? "early" args with
    | some e, some r => if e == r then "true" else s!"false every-worker-exited={e}-but-WaitStopWithTimeout-returned-early={r}"
    | _, _ => "bad-op"
  | "stopped" :: args =>
    -- WaitStopWithTimeout returned before its timeout => every queue worker had exited
    match (kv? "q" args).bind natList?, (kv? "ev" args).bind trace? with
    | some qs, some log =>
      let bad := qs.filter fun q => !(exited q log) || busy q log
      if bad.isEmpty then "true" else s!"false wait-returned-while-workers-still-alive-{showNats bad}"
    | _, _ => "bad-op"
  | _ => "bad-op"

def apply (st : St) (l : Label) : St × String :=
  match ShellOp.Worker.step st.cfg st.s l with
  | some s' => ({ st with s := s' }, obs s')
  | none => (st, "disabled " ++ obs st.s)

def step (st : St) (toks : List String) : St × String :=
  match toks with
  | "oracle" :: rest => (st, oracle rest)
  | ["cfg", f] => ({ st with cfg := { st.cfg with fix := f == "fix" } }, "ok")
  | ["new", q] => match q.toNat? with
    | some q => apply st (.newQueue q true)
    | none => (st, "bad-op")
  | ["new", q, "nohandler"] => match q.toNat? with
    | some q => apply st (.newQueue q false)
    | none => (st, "bad-op")
  | ["start", q] => match q.toNat? with
    | some q =>
      -- one complete Start() call of the single caller thread
      match ShellOp.Worker.step st.cfg st.s (.startRead 0 q) with
      | none => (st, "disabled " ++ obs st.s)
      | some s1 =>
        match ShellOp.Worker.step st.cfg s1 (.startSpawn 0 q) with
        | none => ({ st with s := s1 }, obs s1)           -- already started / no handler
        | some s2 => match ShellOp.Worker.step st.cfg s2 (.startWrite 0 q) with
          | some s3 => ({ st with s := s3 }, obs s3)
          | none => (st, "disabled " ++ obs st.s)
    | none => (st, "bad-op")
  | ["deliver", ts] => match pairs? ts with
    | some ts => apply st (.deliver ts)
    | none => (st, "bad-op")
  | ["cron", ts] => match pairs? ts with
    | some ts => apply st (.cronFire ts)
    | none => (st, "bad-op")
  | ["kube", ts] => match pairs? ts with
    | some ts => apply st (.kubeEvent ts)
    | none => (st, "bad-op")
  | ["schedStop"] =>
    -- ScheduleManager.Stop() and its goroutine (cron.Stop)
    let (st, _) := apply st .schedStop
    apply st .schedStopper
  | ["kubePause"] => apply st .kubePause
  | ["stop"] => apply st .stop
  | ["go", q] => match q.toNat? with
    | some q => match advance st.cfg st.s q .step with
      | some s' => ({ st with s := s' }, obs s')
      | none => (st, "disabled " ++ obs st.s)
    | none => (st, "bad-op")
  | ["sel", q, "done"] => match q.toNat? with
    | some q => match advance st.cfg st.s q .selDone with
      | some s' => ({ st with s := s' }, obs s')
      | none => (st, "disabled " ++ obs st.s)
    | none => (st, "bad-op")
  | ["sel", q, "tick"] => match q.toNat? with
    | some q => match advance st.cfg st.s q .selTick with
      | some s' => ({ st with s := s' }, obs s')
      | none => (st, "disabled " ++ obs st.s)
    | none => (st, "bad-op")
  | ["tgo", q, e] => match q.toNat? with
    | some q => match advance st.cfg st.s q (.tickStep (e == "1")) with
      | some s' => ({ st with s := s' }, obs s')
      | none => (st, "disabled " ++ obs st.s)
    | none => (st, "bad-op")
  | "ret" :: q :: stt :: rest =>
    match q.toNat?, status? stt, natList? ((kv? "h" rest).getD "-"), natList? ((kv? "a" rest).getD "-"),
          natList? ((kv? "t" rest).getD "-"), ((kv? "d" rest).getD "0").toNat?, ((kv? "b" rest).getD "0").toNat? with
    | some q, some stt, some h, some a, some t, some d, some b =>
      apply st (.handlerReturn q 0 { status := stt, head := h, after := a, tail := t, delay := d, backoff := b })
    | _, _, _, _, _, _, _ => (st, "bad-op")
  | ["filter", q, keep] => match q.toNat?, natList? keep with
    | some q, some keep => apply st (.handlerFilter q 0 keep)
    | _, _ => (st, "bad-op")
  | ["cronrun"] => (st, "fired-before-stop=1")   -- the real cron fired within 5 s (runtime observation)
  | ["loadconfig"] => (st, "ok")     -- the real loader accepted the sample configuration (C10's subject)
  | ["cancelDelay", q] => match q.toNat? with
    | some q => apply st (.cancelDelay q)
    | none => (st, "bad-op")
  | ["log"] => (st, showLog st.s.log)
  | ["allStopped"] => (st, showBool (allStopped st.s))
  | _ => (st, "bad-op")

def suite : Suite St := { init := {}, step := step }

end ShellOp.Drv.Worker
