import ShellOp.Util
import ShellOp.Model.HookRun
import ShellOp.Model.HookOutText
/-! Line-protocol suite for C12 (hook execution contract). Core-only.

* `keepvar x<hex>` — the value of the keep-tmp debug setting (`--debug-keep-tmp-files`) the hooks are
  loaded and run with.
* `exec <eid> allow=<0|1> exit=<n> metrics=<class> adm=<class> conv=<class> patch=<class>
  mt=x<hex> at=x<hex> ct=x<hex> pt=x<hex> pf=<json|yaml>` — one execution with scripted outputs: the TEXT the
  hook writes into each output file (hex) and the generator's class. Whether a file is well-formed is
  decided here from its text (`Text.streamOk` / `Text.wholeOk`); the class only says what a
  well-formed file means (`badbatch`: rejected by `ValidateOperations`; patch `applyerr` /
  `invaliddoc` / `wrongtype`: the schema's and the cluster's business; `deleted`: the hook removed the
  file; YAML patches: the class alone). The model runs `Run` + `handleRunHook` on its temp directory
  and answers with status and effects.
* `prepfail <eid> created=<k> [allow=<0|1>]` — the (k+1)-th temp file cannot be created (the execution counts for
  the names/leftover oracles as one that drew no names).
* `tmpdir` — number of files in the temp directory now.
* `oracle outcome|env|tmpdir|unique …` — the property on what the implementation showed.
-/
namespace ShellOp.Drv.C12
open ShellOp ShellOp.Util ShellOp.HookRun

structure ExecIn where
  eid : Nat
  allow : Bool
  out : Outputs

structure S where
  dir : List Name := []
  keep : Bool := false
  execs : List ExecIn := []

def hexDigit (c : Char) : Option Nat :=
  if '0' ≤ c ∧ c ≤ '9' then some (c.toNat - '0'.toNat)
  else if 'a' ≤ c ∧ c ≤ 'f' then some (c.toNat - 'a'.toNat + 10)
  else none

def unhexList : List Char → Option (List Char)
  | [] => some []
  | a :: b :: rest => do
    let x ← hexDigit a
    let y ← hexDigit b
    let r ← unhexList rest
    some (Char.ofNat (16 * x + y) :: r)
  | _ => none

/-- `x<hex>` → the bytes as characters. -/
def unhex (s : String) : Option (List Char) :=
  match s.toList with
  | 'x' :: cs => unhexList cs
  | _ => none

/-- Class → the two facts the text does not decide (`deleted`: the hook removed the file;
`badbatch`: `ValidateOperations` rejects the operations). -/
def metricsOf (cls : String) (text : List Char) : Metrics :=
  Text.metricsOfText (cls == "deleted") (cls != "badbatch") text

def respOf (ok : Text.V → Bool) (cls : String) (text : List Char) : Resp :=
  Text.respOfText ok (cls == "deleted") text

def patchOf (cls fmt : String) (text : List Char) : Patch :=
  let byClass : Patch :=
    if cls == "valid" then .ops true else if cls == "applyerr" then .ops false else .parseErr
  -- `pf=json`: the generator's texts that are not JSON are not YAML either (it filters them)
  if fmt == "json" then Text.patchOfText (cls == "deleted") byClass .parseErr text
  else if cls == "deleted" then .unreadable
  else if text.isEmpty then .empty
  else byClass

def namesFor (eid : Nat) : Names :=
  ⟨5 * eid + 1, 5 * eid + 2, 5 * eid + 3, 5 * eid + 4, 5 * eid + 5⟩

def b01 (b : Bool) : String := if b then "1" else "0"
def bool? : String → Option Bool
  | "0" => some false | "1" => some true | _ => none

def showOutcome (fail : Bool) (p m a c : Bool) : String :=
  s!"status={if fail then "Fail" else "Success"} patch={b01 p} metrics={b01 m} adm={b01 a} conv={b01 c}"

def parseExec (rest : List String) : Option (Bool × Outputs) := do
  let allow ← (kv? "allow" rest).bind bool?
  let exit ← (kv? "exit" rest).bind String.toNat?
  let mc ← kv? "metrics" rest
  let ac ← kv? "adm" rest
  let cc ← kv? "conv" rest
  let pc ← kv? "patch" rest
  let mt ← (kv? "mt" rest).bind unhex
  let at' ← (kv? "at" rest).bind unhex
  let ct ← (kv? "ct" rest).bind unhex
  let pt ← (kv? "pt" rest).bind unhex
  let pf ← kv? "pf" rest
  if pf != "json" && pf != "yaml" then none
  some (allow, ⟨exit, metricsOf mc mt, respOf Text.admissionOk ac at', respOf Text.conversionOk cc ct,
    patchOf pc pf pt⟩)

def step (st : S) (toks : List String) : S × String :=
  match toks with
  | "note" :: _ => (st, "ok")
  | ["keepvar", v] =>
    match unhex v with
    | some v => ({ st with keep := keepSetting (String.ofList v) }, "ok")
    | none => (st, "bad-op")
  | "exec" :: eid :: rest =>
    match eid.toNat?, parseExec rest with
    | some eid, some (allow, out) =>
      let r := run st.keep (namesFor eid) [] out st.dir
      let h := handle r
      ({ st with dir := r.dir, execs := st.execs ++ [⟨eid, allow, out⟩] },
        showOutcome (taskStatusFail allow h) h.patchExecuted h.metricsSent h.admissionProp h.conversionProp)
    | _, _ => (st, "bad-op")
  | "prepfail" :: eid :: c :: rest =>
    -- optional `allow=<0|1>` (default 0): the task's allowFailure
    let allow? : Option Bool := match rest with
      | [] => some false
      | [a] => (kv? "allow" [a]).bind bool?
      | _ => none
    match eid.toNat?, (kv? "created" [c]).bind String.toNat?, allow? with
    | some eid, some k, some allow =>
      let r := run st.keep (namesFor eid) (List.replicate k true ++ [false]) ⟨0, .none, .none, .none, .empty⟩ st.dir
      ({ st with dir := r.dir },
        s!"status={if taskStatusFail allow (handle r) then "Fail" else "Success"} started={b01 r.started} leftover={r.dir.length}")
    | _, _, _ => (st, "bad-op")
  | ["tmpdir"] => (st, s!"leftover={st.dir.length}")
  | "oracle" :: "outcome" :: rest =>
    -- the contract: fails iff exit ≠ 0 or an output is malformed / cannot be applied; outputs are
    -- applied exactly as `Spec` says
    match (kv? "eid" rest).bind String.toNat?, kv? "status" rest, (kv? "patch" rest).bind bool?,
        (kv? "metrics" rest).bind bool?, (kv? "adm" rest).bind bool?, (kv? "conv" rest).bind bool? with
    | some eid, some status, some p, some m, some a, some c =>
      match st.execs.find? (·.eid == eid) with
      | none => (st, "bad-op")
      | some e =>
        let statusFail? := match status with
          | "Fail" => some true | "Success" => some false | _ => none
        match statusFail? with
        | none => (st, "false status is neither Success nor Fail")
        | some sf =>
          if Spec.admits e.out e.allow sf p m a c then (st, "true")
          else
            let want := showOutcome (Spec.fails e.out && !e.allow) (Spec.patchApplied e.out)
              (Spec.metricsApplied e.out) (Spec.admissionRelayed e.out) (Spec.conversionRelayed e.out)
            (st, "false want " ++ want)
    | _, _, _, _, _, _ => (st, "bad-op")
  | "oracle" :: "env" :: rest =>
    -- started in its own directory; six variables pointing into the temp dir with the documented
    -- name patterns; the four output files empty; the context file = exactly the task's contexts
    let flags := ["pwd", "dir", "pattern", "sizes", "ctx", "alias"]
    match (kv? "vars" rest).bind String.toNat?, flags.mapM (fun f => (kv? f rest).bind bool?) with
    | some vars, some fs =>
      if vars == 6 && fs.all id then (st, "true")
      else (st, "false want vars=6 and every flag 1")
    | _, _ => (st, "bad-op")
  | "oracle" :: "tmpdir" :: rest =>
    -- all temporary files of the executions are gone (unless the debug variable keeps them)
    -- `setting=x<hex>`: the value of --debug-keep-tmp-files the operator runs with (default "no");
    -- documented: "set to yes to disable cleanup" — every other value removes the files
    let setting? : Option String := match kv? "setting" rest with
      | none => some "no"
      | some h => (unhex h).map String.ofList
    match (kv? "leftover" rest).bind String.toNat?, setting? with
    | some n, some setting =>
      let want := if setting == "yes" then 5 * st.execs.length else 0
      if n == want then (st, "true") else (st, s!"false want leftover={want}")
    | _, _ => (st, "bad-op")
  | "oracle" :: "unique" :: rest =>
    -- file names are unique per execution: the interned path names handed to the hooks (five per
    -- execution, in execution order) are pairwise different
    match (kv? "ids" rest).bind natList? with
    | some ids =>
      if ids.length != 5 * st.execs.length then (st, s!"false want {5 * st.execs.length} names")
      else if ids.eraseDups.length != ids.length then (st, "false a file name is used twice")
      else (st, "true")
    | none => (st, "bad-op")
  | _ => (st, "bad-op")

def suite : Suite S := { init := {}, step := step }

end ShellOp.Drv.C12
