import ShellOp.Util
import ShellOp.Model.HookRun
/-! Line-protocol suite for C12 (hook execution contract). Core-only.

* `keep <0|1>` — the keep-tmp debug variable.
* `exec <eid> allow=<0|1> exit=<n> metrics=<class> adm=<class> conv=<class> patch=<class>` — one
  execution with scripted outputs; the model runs `Run` + `handleRunHook` on its temp directory and
  answers with status and effects.
* `prepfail <eid> created=<k> [allow=<0|1>]` — the (k+1)-th temp file cannot be created (the execution counts for
  the names/leftover oracles as one that drew no names).
* `tmpdir` — number of files in the temp directory now.
* `oracle outcome|env|tmpdir|unique …` — the property on what the implementation showed.
-/
namespace ShellOp.Drv.C12
open ShellOp ShellOp.Util ShellOp.HookRun

structure ExecIn where
  eid : Nat
  allow : Bool
  out : Outputs

structure S where
  dir : List Name := []
  keep : Bool := false
  execs : List ExecIn := []

/-- File class → what the parser returns (the classes the harness writes). -/
def metricsOf : String → Option Metrics
  | "empty" => some .none
  | "valid" => some (.ops true)
  | "badbatch" => some (.ops false)     -- decodes, rejected by ValidateOperations
  | "truncated" => some .err
  | "wrongtype" => some .err
  | "deleted" => some .err
  | _ => none

def respOf : String → Option Resp
  | "empty" => some .none
  | "valid" => some .some
  | "truncated" => some .err
  | "wrongtype" => some .err
  | "deleted" => some .err
  | _ => none

def patchOf : String → Option Patch
  | "empty" => some .empty
  | "valid" => some (.ops true)
  | "applyerr" => some (.ops false)     -- parses, one operation fails when applied
  | "invaliddoc" => some .parseErr      -- decodes, rejected by the schema
  | "truncated" => some .parseErr
  | "wrongtype" => some .parseErr
  | "deleted" => some .unreadable
  | _ => none

def namesFor (eid : Nat) : Names :=
  ⟨5 * eid + 1, 5 * eid + 2, 5 * eid + 3, 5 * eid + 4, 5 * eid + 5⟩

def b01 (b : Bool) : String := if b then "1" else "0"
def bool? : String → Option Bool
  | "0" => some false | "1" => some true | _ => none

def showOutcome (fail : Bool) (p m a c : Bool) : String :=
  s!"status={if fail then "Fail" else "Success"} patch={b01 p} metrics={b01 m} adm={b01 a} conv={b01 c}"

def parseExec (rest : List String) : Option (Bool × Outputs) := do
  let allow ← (kv? "allow" rest).bind bool?
  let exit ← (kv? "exit" rest).bind String.toNat?
  let m ← (kv? "metrics" rest).bind metricsOf
  let a ← (kv? "adm" rest).bind respOf
  let c ← (kv? "conv" rest).bind respOf
  let p ← (kv? "patch" rest).bind patchOf
  some (allow, ⟨exit, m, a, c, p⟩)

def step (st : S) (toks : List String) : S × String :=
  match toks with
  | "note" :: _ => (st, "ok")
  | ["keep", k] =>
    match bool? k with
    | some k => ({ st with keep := k }, "ok")
    | none => (st, "bad-op")
  | "exec" :: eid :: rest =>
    match eid.toNat?, parseExec rest with
    | some eid, some (allow, out) =>
      let r := run st.keep (namesFor eid) [] out st.dir
      let h := handle r
      ({ st with dir := r.dir, execs := st.execs ++ [⟨eid, allow, out⟩] },
        showOutcome (taskStatusFail allow h) h.patchExecuted h.metricsSent h.admissionProp h.conversionProp)
    | _, _ => (st, "bad-op")
  | "prepfail" :: eid :: c :: rest =>
    -- optional `allow=<0|1>` (default 0): the task's allowFailure
    let allow? : Option Bool := match rest with
      | [] => some false
      | [a] => (kv? "allow" [a]).bind bool?
      | _ => none
    match eid.toNat?, (kv? "created" [c]).bind String.toNat?, allow? with
    | some eid, some k, some allow =>
      let r := run st.keep (namesFor eid) (List.replicate k true ++ [false]) ⟨0, .none, .none, .none, .empty⟩ st.dir
      ({ st with dir := r.dir },
        s!"status={if taskStatusFail allow (handle r) then "Fail" else "Success"} started={b01 r.started} leftover={r.dir.length}")
    | _, _, _ => (st, "bad-op")
  | ["tmpdir"] => (st, s!"leftover={st.dir.length}")
  | "oracle" :: "outcome" :: rest =>
    -- the contract: fails iff exit ≠ 0 or an output is malformed / cannot be applied; outputs are
    -- applied exactly as `Spec` says
    match (kv? "eid" rest).bind String.toNat?, kv? "status" rest, (kv? "patch" rest).bind bool?,
        (kv? "metrics" rest).bind bool?, (kv? "adm" rest).bind bool?, (kv? "conv" rest).bind bool? with
    | some eid, some status, some p, some m, some a, some c =>
      match st.execs.find? (·.eid == eid) with
      | none => (st, "bad-op")
      | some e =>
        let statusFail? := match status with
          | "Fail" => some true | "Success" => some false | _ => none
        match statusFail? with
        | none => (st, "false status is neither Success nor Fail")
        | some sf =>
          if Spec.admits e.out e.allow sf p m a c then (st, "true")
          else
            let want := showOutcome (Spec.fails e.out && !e.allow) (Spec.patchApplied e.out)
              (Spec.metricsApplied e.out) (Spec.admissionRelayed e.out) (Spec.conversionRelayed e.out)
            (st, "false want " ++ want)
    | _, _, _, _, _, _ => (st, "bad-op")
  | "oracle" :: "env" :: rest =>
    -- started in its own directory; six variables pointing into the temp dir with the documented
    -- name patterns; the four output files empty; the context file = exactly the task's contexts
    let flags := ["pwd", "dir", "pattern", "sizes", "ctx", "alias"]
    match (kv? "vars" rest).bind String.toNat?, flags.mapM (fun f => (kv? f rest).bind bool?) with
    | some vars, some fs =>
      if vars == 6 && fs.all id then (st, "true")
      else (st, "false want vars=6 and every flag 1")
    | _, _ => (st, "bad-op")
  | "oracle" :: "tmpdir" :: rest =>
    -- all temporary files of the executions are gone (unless the debug variable keeps them)
    match (kv? "leftover" rest).bind String.toNat? with
    | some n =>
      let want := if st.keep then 5 * st.execs.length else 0
      if n == want then (st, "true") else (st, s!"false want leftover={want}")
    | none => (st, "bad-op")
  | "oracle" :: "unique" :: rest =>
    -- file names are unique per execution: the interned path names handed to the hooks (five per
    -- execution, in execution order) are pairwise different
    match (kv? "ids" rest).bind natList? with
    | some ids =>
      if ids.length != 5 * st.execs.length then (st, s!"false want {5 * st.execs.length} names")
      else if ids.eraseDups.length != ids.length then (st, "false a file name is used twice")
      else (st, "true")
    | none => (st, "bad-op")
  | _ => (st, "bad-op")

def suite : Suite S := { init := {}, step := step }

end ShellOp.Drv.C12
