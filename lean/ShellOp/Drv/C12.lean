import ShellOp.Util
import ShellOp.Model.HookRun
import ShellOp.Model.HookOutText
/-! Line-protocol suite for C12 (hook execution contract). Core-only.

* `keepvar x<hex>` — the value of the keep-tmp debug setting (`--debug-keep-tmp-files`) the hooks are
  loaded and run with.
* `exec <eid> allow=<0|1> exit=<n> metrics=<class> adm=<class> conv=<class> patch=<class>
  mt=x<hex> at=x<hex> ct=x<hex> pt=x<hex> pf=<json|yaml>` — one execution with scripted outputs: the TEXT the
  hook writes into each output file (hex) and the generator's class. Whether a file is well-formed is
  decided here from its text (`Text.streamOk` / `Text.wholeOk`); the class only says what a
  well-formed file means (`badbatch`: rejected by `ValidateOperations`; patch `applyerr` /
  `invaliddoc` / `wrongtype`: the schema's and the cluster's business; `deleted`: the hook removed the
  file; YAML patches: the class alone). The model runs `Run` + `handleRunHook` on its temp directory
  and answers with status and effects.
  `pm=<ops>`: the operations of the patch file (`<p|c><ignoreHookError>:x<subresource hex>`, comma separated,
  `-` = none); the answer ends with `ops=<mask>`: which of them `handleRunHook` executes.
* `filter pm=<ops>` — `GetPatchStatusOperationsOnHookError` on these operations: `kept=<mask>`.
* `prepfail <eid> created=<k> [allow=<0|1>]` — the (k+1)-th temp file cannot be created (the execution counts for
  the names/leftover oracles as one that drew no names).
* `tmpdir` — number of files in the temp directory now.
* `oracle outcome|ops|env|dirs|tmpdir|unique …` — the property on what the implementation showed.
-/
namespace ShellOp.Drv.C12
open ShellOp ShellOp.Util ShellOp.HookRun

structure ExecIn where
  eid : Nat
  allow : Bool
  out : Outputs
  ops : List POp := []

structure S where
  dir : List Name := []
  keep : Bool := false
  execs : List ExecIn := []

def hexDigit (c : Char) : Option Nat :=
  if '0' ≤ c ∧ c ≤ '9' then some (c.toNat - '0'.toNat)
  else if 'a' ≤ c ∧ c ≤ 'f' then some (c.toNat - 'a'.toNat + 10)
  else none

def unhexList : List Char → Option (List Char)
  | [] => some []
  | a :: b :: rest => do
    let x ← hexDigit a
    let y ← hexDigit b
    let r ← unhexList rest
    some (Char.ofNat (16 * x + y) :: r)
  | _ => none

/-- `x<hex>` → the bytes as characters. -/
def unhex (s : String) : Option (List Char) :=
  match s.toList with
  | 'x' :: cs => unhexList cs
  | _ => none

/-- Class → the two facts the text does not decide (`deleted`: the hook removed the file;
`badbatch`: `ValidateOperations` rejects the operations). -/
def metricsOf (cls : String) (text : List Char) : Metrics :=
  Text.metricsOfText (cls == "deleted") (cls != "badbatch") text

def respOf (ok : Text.V → Bool) (cls : String) (text : List Char) : Resp :=
  Text.respOfText ok (cls == "deleted") text

def patchOf (cls fmt : String) (text : List Char) : Patch :=
  let byClass : Patch :=
    if cls == "valid" || cls == "marked" then .ops true else if cls == "applyerr" then .ops false else .parseErr
  -- `pf=json`: the generator's texts that are not JSON are not YAML either (it filters them)
  if fmt == "json" then Text.patchOfText (cls == "deleted") byClass .parseErr text
  else if cls == "deleted" then .unreadable
  else if text.isEmpty then .empty
  else byClass

def namesFor (eid : Nat) : Names :=
  ⟨5 * eid + 1, 5 * eid + 2, 5 * eid + 3, 5 * eid + 4, 5 * eid + 5⟩

def b01 (b : Bool) : String := if b then "1" else "0"
def bool? : String → Option Bool
  | "0" => some false | "1" => some true | _ => none

def showOutcome (fail : Bool) (p m a c : Bool) : String :=
  s!"status={if fail then "Fail" else "Success"} patch={b01 p} metrics={b01 m} adm={b01 a} conv={b01 c}"

/-- `pm=`: the operations of the patch file, `<p|c><0|1>:x<hex>` (patch-type or not, ignoreHookError,
subresource) separated by commas; `-` = none. -/
def parseOp (t : String) : Option POp :=
  match t.splitOn ":" with
  | [ki, sub] =>
    match ki.toList, unhex sub with
    | [k, i], some sb =>
      match (if k == 'p' then some true else if k == 'c' then some false else none), bool? (String.singleton i) with
      | some isP, some ig => some ⟨isP, String.ofList sb, ig⟩
      | _, _ => none
    | _, _ => none
  | _ => none

def parseOps (t : String) : Option (List POp) :=
  if t == "-" then some [] else (t.splitOn ",").mapM parseOp

def parseMask (t : String) : Option (List Bool) :=
  if t == "-" then some [] else (t.splitOn ",").mapM bool?

def showMask (m : List Bool) : String :=
  if m.isEmpty then "-" else ",".intercalate (m.map b01)

def parseExec (rest : List String) : Option (Bool × Outputs) := do
  let allow ← (kv? "allow" rest).bind bool?
  let exit ← (kv? "exit" rest).bind String.toNat?
  let mc ← kv? "metrics" rest
  let ac ← kv? "adm" rest
  let cc ← kv? "conv" rest
  let pc ← kv? "patch" rest
  let mt ← (kv? "mt" rest).bind unhex
  let at' ← (kv? "at" rest).bind unhex
  let ct ← (kv? "ct" rest).bind unhex
  let pt ← (kv? "pt" rest).bind unhex
  let pf ← kv? "pf" rest
  if pf != "json" && pf != "yaml" then none
  some (allow, ⟨exit, metricsOf mc mt, respOf Text.admissionOk ac at', respOf Text.conversionOk cc ct,
    patchOf pc pf pt⟩)

def step (st : S) (toks : List String) : S × String :=
  match toks with
  | "note" :: _ => (st, "ok")
  | ["keepvar", v] =>
    match unhex v with
    | some v => ({ st with keep := keepSetting (String.ofList v) }, "ok")
    | none => (st, "bad-op")
  | "exec" :: eid :: rest =>
    match eid.toNat?, parseExec rest, (kv? "pm" rest).bind parseOps with
    | some eid, some (allow, out), some ops =>
      let r := run st.keep (namesFor eid) [] out st.dir
      let h := handle r
      let executed := handleOps r ops
      ({ st with dir := r.dir, execs := st.execs ++ [⟨eid, allow, out, ops⟩] },
        showOutcome (taskStatusFail allow h) h.patchExecuted h.metricsSent h.admissionProp h.conversionProp
          ++ " ops=" ++ showMask (ops.map (fun o => executed.contains o)))
    | _, _, _ => (st, "bad-op")
  | ["filter", pm] =>
    -- `GetPatchStatusOperationsOnHookError` on a parsed list of operations: which are kept
    match (kv? "pm" [pm]).bind parseOps with
    | some ops =>
      let kept := statusOpsOnError ops []
      (st, "kept=" ++ showMask (ops.map (fun o => kept.contains o)))
    | none => (st, "bad-op")
  | "oracle" :: "ops" :: rest =>
    -- the operations of the patch file: after a non-zero exit / a malformed output none is applied
    -- (except, at most, status patches marked ignoreHookError: the documented exception); an
    -- execution that does not fail applies every one
    match (kv? "eid" rest).bind String.toNat?, (kv? "applied" rest).bind parseMask with
    | some eid, some applied =>
      match st.execs.find? (·.eid == eid) with
      | none => (st, "bad-op")
      | some e =>
        if Spec.admitsOps e.out e.ops applied then (st, "true")
        else if applied.length != e.ops.length then (st, s!"false want {e.ops.length} operations")
        else if e.out.exit ≠ 0 || Spec.malformed e.out then
          (st, "false the execution failed: only status patches marked ignoreHookError may be applied, want at most applied="
            ++ showMask (e.ops.map Spec.statusIgnore))
        else (st, "false the execution did not fail: want every operation applied")
    | _, _ => (st, "bad-op")
  | "prepfail" :: eid :: c :: rest =>
    -- optional `allow=<0|1>` (default 0): the task's allowFailure
    let allow? : Option Bool := match rest with
      | [] => some false
      | [a] => (kv? "allow" [a]).bind bool?
      | _ => none
    match eid.toNat?, (kv? "created" [c]).bind String.toNat?, allow? with
    | some eid, some k, some allow =>
      let r := run st.keep (namesFor eid) (List.replicate k true ++ [false]) ⟨0, .none, .none, .none, .empty⟩ st.dir
      ({ st with dir := r.dir },
        s!"status={if taskStatusFail allow (handle r) then "Fail" else "Success"} started={b01 r.started} leftover={r.dir.length}")
    | _, _, _ => (st, "bad-op")
  | ["tmpdir"] => (st, s!"leftover={st.dir.length}")
  | "oracle" :: "outcome" :: rest =>
    -- the contract: fails iff exit ≠ 0 or an output is malformed / cannot be applied; outputs are
    -- applied exactly as `Spec` says
    match (kv? "eid" rest).bind String.toNat?, kv? "status" rest, (kv? "patch" rest).bind bool?,
        (kv? "metrics" rest).bind bool?, (kv? "adm" rest).bind bool?, (kv? "conv" rest).bind bool? with
    | some eid, some status, some p, some m, some a, some c =>
      match st.execs.find? (·.eid == eid) with
      | none => (st, "bad-op")
      | some e =>
        let statusFail? := match status with
          | "Fail" => some true | "Success" => some false | _ => none
        match statusFail? with
        | none => (st, "false status is neither Success nor Fail")
        | some sf =>
          if Spec.admits e.out e.allow sf p m a c then (st, "true")
          else
            let want := showOutcome (Spec.fails e.out && !e.allow) (Spec.patchApplied e.out)
              (Spec.metricsApplied e.out) (Spec.admissionRelayed e.out) (Spec.conversionRelayed e.out)
            (st, "false want " ++ want)
    | _, _, _, _, _, _ => (st, "bad-op")
  | "oracle" :: "env" :: rest =>
    -- started in its own directory; six variables pointing into the temp dir with the documented
    -- name patterns; the four output files empty; the context file = exactly the task's contexts;
    -- `access`: seen from inside the hook process (its own working directory) every variable names an
    -- existing regular file it can read and write
    let flags := ["pwd", "dir", "pattern", "sizes", "ctx", "alias", "access"]
    match (kv? "vars" rest).bind String.toNat?, flags.mapM (fun f => (kv? f rest).bind bool?) with
    | some vars, some fs =>
      if vars == 6 && fs.all id then (st, "true")
      else (st, "false want vars=6 and every flag 1")
    | _, _ => (st, "bad-op")
  | "oracle" :: "dirs" :: rest =>
    -- the configured directories (--hooks-dir: must exist; --tmp-dir: exists or is created), however
    -- they are spelled: accepted, and what the plumbing hands to the hook manager names exactly them
    match ["hookserr", "tmperr", "hooks", "tmp"].mapM (fun f => (kv? f rest).bind bool?) with
    | some [he, te, h, t] =>
      if !he && !te && h && t then (st, "true")
      else (st, "false want hookserr=0 tmperr=0 hooks=1 tmp=1")
    | _ => (st, "bad-op")
  | "oracle" :: "tmpdir" :: rest =>
    -- all temporary files of the executions are gone (unless the debug variable keeps them)
    -- `setting=x<hex>`: the value of --debug-keep-tmp-files the operator runs with (default "no");
    -- documented: "set to yes to disable cleanup" — every other value removes the files
    let setting? : Option String := match kv? "setting" rest with
      | none => some "no"
      | some h => (unhex h).map String.ofList
    match (kv? "leftover" rest).bind String.toNat?, setting? with
    | some n, some setting =>
      let want := if setting == "yes" then 5 * st.execs.length else 0
      if n == want then (st, "true") else (st, s!"false want leftover={want}")
    | _, _ => (st, "bad-op")
  | "oracle" :: "unique" :: rest =>
    -- file names are unique per execution: the interned path names handed to the hooks (five per
    -- execution, in execution order) are pairwise different
    match (kv? "ids" rest).bind natList? with
    | some ids =>
      if ids.length != 5 * st.execs.length then (st, s!"false want {5 * st.execs.length} names")
      else if ids.eraseDups.length != ids.length then (st, "false a file name is used twice")
      else (st, "true")
    | none => (st, "bad-op")
  | _ => (st, "bad-op")

def suite : Suite S := { init := {}, step := step }

end ShellOp.Drv.C12
