import ShellOp.Util
import ShellOp.Model.Informer
import ShellOp.Model.MonitorEnable
import ShellOp.Model.SnapshotCache
import ShellOp.Model.EventFlow
/-! Line-protocol suite for C01 (informer hand-over protocol). Core-only. -/
namespace ShellOp.Drv.C01
open ShellOp ShellOp.Util ShellOp.Informer

structure DSt where
  m : St := {}
  fview : Cache := []     -- view of the foreign reader in flight
  sview : Cache := []     -- view of the sync-tagged reader in flight
  lastView : Cache := []  -- view returned by the read that finished last
  mon : MonitorEnable.MSt := {}
  shared : EventFlow.Shared.St := {}   -- the factory entry of ONE index (shared-informer suite)

def kindCh : Kind → String | .added => "a" | .modified => "m" | .deleted => "d"
def showEv (e : Ev) : String := s!"{e.id}{kindCh e.kind}{e.cs}"
def showEvs (l : List Ev) : String := if l.isEmpty then "-" else String.intercalate "," (l.map showEv)

def parseEv (s : String) : Option Ev :=
  let cs := s.toList
  let d1 := cs.takeWhile Char.isDigit
  let rest := cs.dropWhile Char.isDigit
  match rest with
  | k :: d2 =>
    let kind? : Option Kind := if k == 'a' then some .added else if k == 'm' then some .modified
      else if k == 'd' then some .deleted else none
    match kind?, (String.ofList d1).toNat?, (String.ofList d2).toNat? with
    | some kind, some id, some c => some ⟨id, kind, c⟩
    | _, _, _ => none
  | [] => none

def parseEvs (s : String) : Option (List Ev) := (strList s).mapM parseEv

def parseKinds (s : String) : Option (List Kind) :=
  (strList s).mapM fun x => match x with
    | "a" => some Kind.added | "m" => some Kind.modified | "d" => some Kind.deleted | _ => none

def insertSorted (p : Nat × Nat) : List (Nat × Nat) → List (Nat × Nat)
  | [] => [p]
  | q :: rest => if p.1 ≤ q.1 then p :: q :: rest else q :: insertSorted p rest

def sortCache (c : Cache) : Cache := c.foldl (fun acc p => insertSorted p acc) []

def showCache (c : Cache) : String :=
  let c := sortCache c
  if c.isEmpty then "-" else String.intercalate "," (c.map fun p => s!"{p.1}@{p.2}")

def parseCache (s : String) : Option Cache :=
  (strList s).mapM fun x => match x.splitOn "@" with
    | [a, b] => do some ((← a.toNat?), (← b.toNat?))
    | _ => none

def showTag : Tag → String | .sync => "sync" | .foreign => "foreign"
def parseTag : String → Option Tag | "sync" => some .sync | "foreign" => some .foreign | _ => none

def showWpc : WPc → String
  | .idle => "idle" | .haveEvent e => s!"have:{showEv e}" | .haveFlag e f => s!"flag:{showEv e}:{f}"

def dump (s : St) (extra : String) : String :=
  s!"cache={showCache s.cache} buf={showEvs s.buf} en={if s.enabled then 1 else 0} delivered={showEvs s.delivered} wpc={showWpc s.wpc} readers={showStrs (s.readers.map showTag)}{extra}"

def parseAction : List String → Option Action
  | ["w1"] => some .w1 | ["w2"] => some .w2
  | ["s1", t] => (parseTag t).map .s1 | ["s2", t] => (parseTag t).map .s2
  | ["e"] => some .e | _ => none

def step (d : DSt) (toks : List String) : DSt × String :=
  match toks with
  | "cfg" :: rest =>
    match (kv? "types" rest).bind parseKinds with
    | some ts => ({ d with m := { d.m with types := ts } }, "ok")
    | none => (d, "bad-op")
  | ["watch", evs] =>
    match parseEvs evs with
    | some l => ({ d with m := { d.m with pending := d.m.pending ++ l } }, "ok")
    | none => (d, "bad-op")
  | "probe" :: rest =>
    match parseAction rest with
    | some a =>
      -- `disabled`: not enabled even with `eventBufLock` free; `blocked`: waits for the lock
      match Informer.step true { d.m with readers := [] } a, Informer.step true d.m a with
      | none, _ => (d, "disabled")
      | some _, none => (d, "blocked")
      | some _, some _ => (d, "enabled")
    | none => (d, "bad-op")
  | "probe-in-e" :: _ =>
    -- in the model the unlock E (flag flip + replay of the buffer) is ONE critical section
    (d, "blocked")
  | "probe-in-w2" :: _ =>
    -- in the model W2 (flag read + deliver/append) is ONE critical section: nothing interleaves
    (d, "blocked")
  | "oracle" :: "step" :: rest =>
    match (kv? "en" rest), (kv? "delivered" rest).bind parseEvs with
    | some en, some del =>
      let before := en == "1" || del.isEmpty
      let inOrder := decide (del <:+: d.m.fired)
      if before && inOrder then (d, "true")
      else (d, s!"false no-event-before-unlock={before} in-order={inOrder} fired={showEvs d.m.fired}")
    | _, _ => (d, "bad-op")
  | "oracle" :: "noloss" :: rest =>
    match (kv? "delivered" rest).bind parseEvs with
    | some del =>
      let want := d.m.fired.drop d.m.syncMark
      if decide (want <:+ del) then (d, "true")
      else (d, s!"false must-deliver-after-view={showEvs want} delivered={showEvs del}")
    | none => (d, "bad-op")
  | "oracle" :: "replay" :: rest =>
    match (kv? "view" rest).bind parseCache, (kv? "delivered" rest).bind parseEvs,
          (kv? "final" rest).bind parseCache with
    | some view, some del, some fin =>
      let got := sortCache (del.foldl applyEv view)
      if got == sortCache fin then (d, "true")
      else (d, s!"false view+events={showCache got} cluster={showCache fin}")
    | _, _, _ => (d, "bad-op")
  | _ =>
    -- `<action> +e`: the action, immediately followed by an unlock that was waiting for the lock
    let fused := toks.getLast? == some "+e"
    let toks := if fused then toks.dropLast else toks
    match parseAction toks with
    | none => (d, "bad-op")
    | some a =>
      match Informer.step true d.m a with
      | none => (d, "disabled")
      | some m1 =>
        let m' := if fused then (Informer.step true m1 .e).getD m1 else m1
        match a with
        | .s1 .foreign => ({ d with m := m', fview := d.m.cache }, dump m' "")
        | .s1 .sync => ({ d with m := m', sview := d.m.cache }, dump m' "")
        | .s2 t =>
          let v := if t = .sync then d.sview else d.fview
          ({ d with m := m', lastView := v }, dump m' s!" view={showCache v}")
        | _ => ({ d with m := m' }, dump m' "")

/-! monitor level (`m …` lines) -/
open MonitorEnable in
def showEa : EaPc → String
  | .start => "start" | .flagSet => "flagSet" | .staticsDone => "staticsDone"
  | .ranging t => s!"ranging:{showNats t}" | .rangeDone => "rangeDone" | .done => "done"

open MonitorEnable in
def mdump (s : MSt) : String :=
  let v := sortCache (s.varying.map fun p => (p.1, if p.2 then 1 else 0))
  let vs := if v.isEmpty then "-" else String.intercalate "," (v.map fun p => s!"{p.1}:{p.2}")
  s!"flag={if s.flag then 1 else 0} statics={showNats (s.statics.map fun b => if b then 1 else 0)} varying={vs} inflight={showNats s.inflight}"

open MonitorEnable in
partial def eaUntil (s : MSt) (stop : EaPc → Bool) (fuel : Nat) : MSt :=
  if fuel == 0 || stop s.ea then s else
  match MonitorEnable.step true s .ea with
  | some s' => eaUntil s' stop (fuel - 1)
  | none => s

open MonitorEnable in
def mstep (d : DSt) (toks : List String) : DSt × String :=
  match toks with
  | "init" :: rest =>
    match (kv? "statics" rest).bind String.toNat?, (kv? "ns" rest).bind natList? with
    | some n, some nss =>
      let m : MSt := MonitorEnable.initial (List.replicate n false) nss
      ({ d with mon := m }, mdump m)
    | _, _ => (d, "bad-op")
  | ["ea-begin"] => (d, mdump d.mon)      -- the call has started; nothing done yet
  | ["ea"] =>
    -- up to the yield point behind the static loop: flag stored, static informers enabled
    match d.mon.ea with
    | .start =>
      let m := eaUntil d.mon (fun pc => pc == .staticsDone) 10
      ({ d with mon := m }, mdump m)
    | _ => (d, "disabled")
  | ["ea-range"] =>
    -- the whole range over the keys stored before it began (no yield point inside the range)
    match d.mon.ea with
    | .staticsDone =>
      match MonitorEnable.step true d.mon .ea with
      | some m1 =>
        let m := eaUntil m1 (fun pc => pc == .ranging []) 1000
        ({ d with mon := m }, mdump m)
      | none => (d, "disabled")
    | _ => (d, "disabled")
  | ["ea-end"] =>
    match d.mon.ea with
    | .ranging [] =>
      match MonitorEnable.step true d.mon .ea with
      | some m => ({ d with mon := m }, mdump m)
      | none => (d, "disabled")
    | _ => (d, "disabled")
  | ["nsStore", n] =>
    match n.toNat? with
    | some n => match MonitorEnable.step true d.mon (.nsStore n) with
      | some m => ({ d with mon := m }, mdump m)
      | none => (d, "disabled")
    | none => (d, "bad-op")
  | ["nsDel", n] =>
    match n.toNat? with
    | some n => match MonitorEnable.step true d.mon (.nsDel n) with
      | some m => ({ d with mon := m }, mdump m)
      | none => (d, "disabled")
    | none => (d, "bad-op")
  | ["nsRead", n] =>
    match n.toNat? with
    | some n => match MonitorEnable.step true d.mon (.nsRead n) with
      | some m => ({ d with mon := m }, mdump m)
      | none => (d, "disabled")
    | none => (d, "bad-op")
  | _ => (d, "bad-op")

def stepAll (d : DSt) (toks : List String) : DSt × String :=
  match toks with
  | "m" :: rest => mstep d rest
  | ["sh", op, i] =>
    -- `sh start i` / `sh stop i`: resource informer i (all of ONE factory index) starts / its context
    -- ends; the model of FactoryStore.Start/Stop answers the registrations left and whether the shared
    -- informer behind them is running
    match i.toNat?, (if op == "start" then some EventFlow.Shared.Op.start else if op == "stop" then some EventFlow.Shared.Op.stop else none) with
    | some i, some mk =>
      let st := EventFlow.Shared.step EventFlow.Shared.bindFactory d.shared (mk i)
      let regs := (match st.fac with | some f => f.regs | none => [])
      let regs := (regs.map fun r => (r, 0)) |> sortCache |>.map (·.1)
      ({ d with shared := st }, s!"regs={showNats regs} running={if EventFlow.Shared.running st then 1 else 0}")
    | _, _ => (d, "bad-op")
  | "oracle" :: "op-nobefore" :: rest =>
    -- whole-operator log: `runs` = per execution the context types it carried + exit code.
    -- No Event is handed to the hook before the first SUCCESSFUL Synchronization execution
    -- (`sync` = S, or G for a grouped binding), and an Event needs one to have happened.
    match kv? "sync" rest, (kv? "runs" rest).map strList with
    | some sy, some runs =>
      let isSyncOk := fun (r : String) => match r.splitOn ":" with
        | [k, "0"] => (k.splitOn sy).length > 1
        | _ => false
      let hasEvent := fun (r : String) => match r.splitOn ":" with
        | k :: _ => (k.splitOn "E").length > 1
        | _ => false
      let before := runs.takeWhile (fun r => !isSyncOk r)
      if before.any hasEvent then (d, s!"false event-before-successful-synchronization runs={showStrs runs}")
      else (d, "true")
    | _, _ => (d, "bad-op")
  | "us" :: ctxs =>
    -- `us <binding>:<includes>:<isSync> …`: the snapshot reads one hook run makes for these binding
    -- contexts (model of HookController.UpdateSnapshots); includes are `+`-separated, `-` = none
    let parse := fun (t : String) => match t.splitOn ":" with
      | [b, inc, sy] => do
        let b ← b.toNat?
        let inc ← if inc == "-" then some [] else (inc.splitOn "+").mapM String.toNat?
        some (SnapshotCache.BC.mk b inc (sy == "1"))
      | _ => none
    match ctxs.mapM parse with
    | some l => (d, "reads=" ++ showNats (SnapshotCache.updateSnapshots (fun _ _ => []) l).1.calls)
    | none => (d, "bad-op")
  | "oracle" :: "op-lock" :: rest =>
    -- lock state seen while a hook execution was held: `binding:unlocked:syncDone` per binding.
    -- A binding may be unlocked (its Events flow to the hook) only if a SUCCESSFUL execution that
    -- carried that binding's own Synchronization has finished.
    match (kv? "held" rest).map strList with
    | some obs =>
      let bad := obs.filter fun o => match o.splitOn ":" with
        | [_, en, ok] => en == "1" && ok != "1"
        | _ => true
      if bad.isEmpty then (d, "true")
      else (d, s!"false unlocked-before-own-synchronization={showStrs bad}")
    | none => (d, "bad-op")
  | "oracle" :: "op-unlock" :: rest =>
    -- observed when every Synchronization step of the hook was over (their tasks handled with
    -- Success and gone from the queue, nothing running): `binding:unlocked` per binding. "Once the hook
    -- has been given its Synchronization view, every later change … reaches the hook": a binding that
    -- is still locked at that point hands nothing over, ever — no step is left that would unlock it.
    match (kv? "unlocked" rest).map strList with
    | some obs =>
      let bad := obs.filter fun o => match o.splitOn ":" with
        | [_, u] => u != "1"
        | _ => true
      if bad.isEmpty then (d, "true")
      else (d, s!"false still-locked-after-its-synchronization-step={showStrs bad}")
    | none => (d, "bad-op")
  | "oracle" :: "m-locked" :: rest =>
    -- monitor level: how many informers of the monitor pass events on, and has the unlock
    -- (EnableKubeEventCb, called after the successful Synchronization) begun? "No Event of a binding
    -- is handed to the hook before that binding's Synchronization step has completed successfully."
    match (kv? "unlockBegun" rest), (kv? "enabled" rest).bind String.toNat? with
    | some b, some n =>
      if b == "1" || n == 0 then (d, "true")
      else (d, s!"false informers-passing-events-before-the-unlock-began={n}")
    | _, _ => (d, "bad-op")
  | "oracle" :: "op-group" :: rest =>
    -- group form: the last Group execution's snapshot reflects the final matching state
    match (kv? "last" rest).bind parseCache, (kv? "final" rest).bind parseCache with
    | some last, some fin =>
      if sortCache last == sortCache fin then (d, "true")
      else (d, s!"false last-group-snapshot={showCache last} cluster={showCache fin}")
    | _, _ => (d, "bad-op")
  | "oracle" :: "op-group-any" :: rest =>
    -- group form with several queues: SOME Group execution shows the final matching state of this
    -- binding (`views` = the binding's snapshot in every execution that carried one, `|`-separated;
    -- executions of different queues are not ordered by their start, so "the last one" means nothing)
    match (kv? "views" rest).map (fun v => (v.splitOn "|").mapM parseCache), (kv? "final" rest).bind parseCache with
    | some (some views), some fin =>
      if views.any (fun v => sortCache v == sortCache fin) then (d, "true")
      else (d, s!"false no-group-snapshot-shows-the-final-state cluster={showCache fin}")
    | _, _ => (d, "bad-op")
  | "oracle" :: "m-delivered" :: rest =>
    -- the property at monitor level: a change made in EVERY namespace of the monitor after the
    -- unlock settled reached the hook (want ⊆ got)
    match (kv? "want" rest).bind natList?, (kv? "got" rest).bind natList? with
    | some want, some got =>
      let missing := want.filter fun n => !got.contains n
      if missing.isEmpty then (d, "true") else (d, s!"false never-delivered-namespaces={showNats missing}")
    | _, _ => (d, "bad-op")
  | _ => step d toks

def suite : Suite DSt := { init := {}, step := stepAll }

end ShellOp.Drv.C01
