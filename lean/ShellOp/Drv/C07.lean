import ShellOp.Util
import ShellOp.Model.Combine
import ShellOp.Drv.C04
/-! Line-protocol suite for C07 (combining adjacent tasks). Core-only.

```
task <id> meta=0|1 hook=<n> type=<n> q=<n> af=0|1 ctxs=<b:t:g;…|-> mons=<n,…|->   → ok
queue <name> <id,…|->                                                       → ok
setmeta <id> ctxs=… mons=…        (the handler's t.UpdateMetadata)            → ok
combine fn=int|twin passed=<name|nil> t=<id> stop=none|af|ids:<id,…> app=<name:id,…;…|->
     → out=nil|panic|res ctxs=… mons=… queues=<name>:<ids>;…
oracle combine t=<id> stop=… app=… out=… ctxs=… mons=… queues=…               → true | false <why>
```
After `mode operator` (real operator): the lines of the C04 suite, plus
```
oracle merged q=<q> task=<id> pre=<ids> ctxs=<hook's view> queue=<ids>      → true | false <why>
```
```
oracle webhook hook=<n> kind=<k> own=<b:t:g> ctxs=<hook's view> pre=<q:ids;…> queue=<q:ids;…> after=<q:ids;…>
                                                                          → true | false <why>
```
(a hook run that is not the execution of a queue's head task: an admission / conversion request).
`combine` answers come from the code-shaped model (`combineGo` / `combineTwin`); `oracle` evaluates
the property (the `Spec` functions: takeWhile / dropWhile / `Spec.compact`) on the state before the
last `combine` and on what the implementation returned. -/
namespace ShellOp.Drv.C07
open ShellOp ShellOp.Util ShellOp.Combine

structure St where
  tasks : List Task := []
  qs : QSet := []
  prev : QSet := []
  /-- whole-operator cases (C07.6): the `task/begin/end/oracle …` lines of the C04 suite -/
  op : Drv.C04.St := {}
  opMode : Bool := false
  /-- whole-operator cases: every task as it was declared when it entered the queue (hook, type,
  allowFailure, group and contexts as the hook *configuration* prescribes them), its contexts
  extended by those of the tasks merged into it so far (plain concatenation, not compacted) -/
  decl : List Task := []

def findTask (st : St) (id : Nat) : Option Task := st.tasks.find? (·.id == id)

def parseCtx (s : String) : Option Ctx :=
  match s.splitOn ":" with
  | [b, t, g] => do some { binding := ← b.toNat?, typ := ← t.toNat?, group := ← g.toNat? }
  | _ => none

def parseCtxs (s : String) : Option (List Ctx) :=
  if s == "-" || s == "" then some [] else (s.splitOn ";").mapM parseCtx

def showCtxs (l : List Ctx) : String :=
  if l.isEmpty then "-" else String.intercalate ";" (l.map fun c => s!"{c.binding}:{c.typ}:{c.group}")

def showQs (qs : QSet) : String :=
  if qs.isEmpty then "-" else
    String.intercalate ";" (qs.map fun p => s!"{p.1}:{showNats (p.2.map (·.id))}")

def showOut : Outcome → String
  | .nil => "out=nil"
  | .panic => "out=panic"
  | .res c m => s!"out=res ctxs={showCtxs c} mons={showNats m}"

def bool? : String → Option Bool
  | "0" => some false | "1" => some true | _ => none

def parseTask (id : String) (rest : List String) : Option Task := do
  let id ← id.toNat?
  let hasMeta ← bool? ((kv? "meta" rest).getD "1")
  let hook ← ((kv? "hook" rest).getD "0").toNat?
  let typ ← ((kv? "type" rest).getD "0").toNat?
  let queue ← ((kv? "q" rest).getD "0").toNat?
  let af ← bool? ((kv? "af" rest).getD "0")
  let ctxs ← parseCtxs ((kv? "ctxs" rest).getD "-")
  let mons ← natList? ((kv? "mons" rest).getD "-")
  some { id, hasMeta, hook, typ, queue, allowFailure := af, ctxs, mons }

/-- `name:id,id;name:id` → per-queue appended tasks (looked up in the task table). -/
def parseApps (st : St) (s : String) : Option (List (Nat × List Task)) :=
  if s == "-" || s == "" then some [] else
    (s.splitOn ";").mapM fun part =>
      match part.splitOn ":" with
      | [n, ids] => do
        let n ← n.toNat?
        let ids ← natList? ids
        let ts ← ids.mapM (findTask st)
        some (n, ts)
      | _ => none

def parseStop (t : Task) (s : String) : Option (Option (Task → Bool)) :=
  if s == "none" then some none
  else if s == "af" then some (stopOnAllowFailureChange t)
  else if s.startsWith "ids:" then
    (natList? (s.drop 4).toString).map fun ids => some (fun tsk => ids.contains tsk.id)
  else none

def parsePassed (s : String) : Option (Option Nat) :=
  if s == "nil" then some none else s.toNat?.map some

structure CombineArgs where
  twin : Bool
  passed : Option Nat
  t : Task
  stop : Option (Task → Bool)
  apps : List (Nat × List Task)

def parseCombine (st : St) (rest : List String) : Option CombineArgs := do
  let twin ← match (kv? "fn" rest).getD "int" with
    | "int" => some false | "twin" => some true | _ => none
  let passed ← parsePassed (← kv? "passed" rest)
  let t ← findTask st (← (← kv? "t" rest).toNat?)
  let stop ← parseStop t ((kv? "stop" rest).getD "none")
  let apps ← parseApps st ((kv? "app" rest).getD "-")
  some { twin, passed, t, stop, apps }

def updTask (f : Task → Task) (id : Nat) (l : List Task) : List Task :=
  l.map fun x => if x.id == id then f x else x

/-- The property, on one observation: `prev` = queue set before the call. Domain: `t` has metadata,
is the head of the queue it names, that queue was passed, ids in it are pairwise different and the
appended ids are new. -/
def oracleCombine (prev : QSet) (a : CombineArgs) (out : Outcome) (after : String) : String :=
  match prev.get a.t.queue with
  | some (h :: rest) =>
    if !(h.id == a.t.id && a.passed == some a.t.queue && a.t.hasMeta) then "bad-op not-in-domain"
    else
      let ms := Spec.merged a.t a.stop rest
      let wantOut : Outcome :=
        if ms.isEmpty then .nil else .res (Spec.contexts a.t ms) (Spec.monitors a.t ms)
      -- every queue: old content (the task's own queue without the merged run) ++ what was appended
      let wantQs : QSet := prev.map fun p =>
        let base := if p.1 == a.t.queue && !ms.isEmpty then Spec.remainder a.t a.stop rest else p.2
        (p.1, base ++ appsFor a.apps p.1)
      if out != wantOut then s!"false want-{showOut wantOut}"
      else if after != showQs wantQs then s!"false want-queues={showQs wantQs}"
      else "true"
  | _ => "bad-op not-in-domain"

/-- The property for a run that is not a queue task (an admission / conversion hook run): `t` is in
no queue of the set and names none, the queue pointer is what `GetByName` of its name gives (nil).
Nothing is merged and no task leaves a queue. -/
def oracleUntouched (prev : QSet) (a : CombineArgs) (out : Outcome) (after : String) : String :=
  if prev.any (fun p => p.2.any (·.id == a.t.id)) || (prev.get a.t.queue).isSome || a.passed.isSome then
    "bad-op not-in-domain"
  else
    let wantQs : QSet := prev.map fun p => (p.1, p.2 ++ appsFor a.apps p.1)
    if out != .nil then "false want-out=nil"
    else if after != showQs wantQs then s!"false want-queues={showQs wantQs}"
    else "true"

/-- The property on one execution of a head task by the real operator (every attempt, first run or
retry). `pre` = ids in the queue when the handler was entered, `ctxs` = what the hook found in its
context file, `after` = ids in the queue while the hook runs. Evaluated on the tasks *as declared*:
the hook receives `Spec.compact` of the concatenation, in queue order, of the contexts of the head
task, of everything merged into it by earlier (failed) attempts and of the run of following tasks of
the same hook and type (up to the stop rule of `taskHandleHookRun`); exactly that run leaves the
queue. An ungrouped kubernetes Synchronization head and a v0 hook merge nothing. -/
def oracleMerged (st : St) (task : Nat) (pre : List Nat) (ctxs : List Ctx) (after : List Nat) : St × String :=
  match pre.mapM (fun id => st.decl.find? (·.id == id)) with
  | none => (st, "bad-op undeclared-task")
  | some [] => (st, "bad-op empty-queue")
  | some (h :: rest) =>
    if h.id != task then (st, s!"false not-the-head-task want-task={h.id}")
    else
      let ver := st.op.cfg.version h.hook
      let combine := ver == 1 && shouldCombine h
      let stop := Drv.C04.codeStopOf h
      let ms := if combine then Spec.merged h stop rest else []
      let all := h.ctxs ++ ms.flatMap (·.ctxs)
      let want := Drv.C04.hookViewV ver (Spec.compact all)
      let wantQ := (if combine then Spec.remainder h stop rest else h :: rest).map (·.id)
      let st' := { st with decl := updTask (fun x => { x with ctxs := all }) h.id st.decl }
      if ctxs != want then (st', s!"false hook-received-other-contexts want={showCtxs want}")
      else if after != wantQ then (st', s!"false queue-after-merge want={showNats wantQ}")
      else (st', "true")

/-- `q:id,id;q:-` → the ids in every queue of the set. -/
def parseQIds (s : String) : Option (List (Nat × List Nat)) :=
  if s == "-" || s == "" then some [] else
    (s.splitOn ";").mapM fun part =>
      match part.splitOn ":" with
      | [n, ids] => do some (← n.toNat?, ← natList? ids)
      | _ => none

def showQIds (l : List (Nat × List Nat)) : String :=
  if l.isEmpty then "-" else String.intercalate ";" (l.map fun p => s!"{p.1}:{showNats p.2}")

/-- The property on one hook run that is NOT the execution of the head task of a queue (the
operator answers an admission / conversion request out of band, with a task that is in no queue).
Tasks leave a queue only by being merged into the executed head task of that queue, and a hook
receives other tasks' contexts only in such a merge: here the hook receives exactly the contexts
of its own request (`own`, as the hook configuration declares the binding) and every queue of the
set holds the same tasks in the same places while the hook runs (`during`) and after it has
finished (`after`) as before the request (`pre`) — whatever the queues hold. -/
def oracleWebhook (own ctxs : List Ctx) (pre during after : List (Nat × List Nat)) : String :=
  -- an admission / conversion context is rendered with its own type ("Validating" / "Mutating" /
  -- "Conversion" = 9 on these lines), before grouping: no `groupName` even when the binding has a `group:`
  let want := own.map fun c => { c with typ := 9, group := 0 }
  if ctxs != want then s!"false webhook-run-received-other-contexts want={showCtxs want}"
  else if during != pre then s!"false tasks-left-a-queue-though-its-head-was-not-merging-them want-queue={showQIds pre}"
  else if after != pre then s!"false tasks-left-a-queue-though-its-head-was-not-merging-them want-after={showQIds pre}"
  else "true"

def parseOut (rest : List String) : Option Outcome :=
  match kv? "out" rest with
  | some "nil" => some .nil
  | some "panic" => some .panic
  | some "res" => do
    let c ← parseCtxs ((kv? "ctxs" rest).getD "-")
    let m ← natList? ((kv? "mons" rest).getD "-")
    some (.res c m)
  | _ => none

def step (st : St) (toks : List String) : St × String :=
  if st.opMode then
    match toks with
    | "oracle" :: "merged" :: rest =>
      match (kv? "task" rest).bind (·.toNat?), (kv? "pre" rest).bind natList?,
            (kv? "ctxs" rest).bind parseCtxs, (kv? "queue" rest).bind natList? with
      | some task, some pre, some ctxs, some after => oracleMerged st task pre ctxs after
      | _, _, _, _ => (st, "bad-op")
    | "oracle" :: "webhook" :: rest =>
      match (kv? "hook" rest).bind (·.toNat?), (kv? "own" rest).bind parseCtxs, (kv? "ctxs" rest).bind parseCtxs,
            (kv? "pre" rest).bind parseQIds, (kv? "queue" rest).bind parseQIds, (kv? "after" rest).bind parseQIds with
      | some hook, some own, some ctxs, some pre, some during, some after =>
        (st, if hook == 0 then "bad-op" else oracleWebhook own ctxs pre during after)
      | _, _, _, _, _, _ => (st, "bad-op")
    | _ =>
    -- whole-operator lines are answered by the retry model of C04 (which embeds `prepareRun`)
    let (op', ans) := Drv.C04.step st.op toks
    let decl := match toks with
      | "task" :: id :: rest =>
        match Drv.C04.parseTask id rest with
        | some t => if st.decl.any (·.id == t.id) then st.decl else t :: st.decl
        | none => st.decl
      | _ => st.decl
    ({ st with op := op', decl := decl }, ans)
  else
  match toks with
  | ["mode", "operator"] => ({ st with opMode := true }, "ok")
  | ["reset"] => ({}, "ok")          -- a corpus case made of several independent layouts
  | "task" :: id :: rest =>
    match parseTask id rest with
    | some t => ({ st with tasks := t :: st.tasks.filter (·.id != t.id) }, "ok")
    | none => (st, "bad-op")
  | ["queue", name, ids] =>
    match name.toNat?, (natList? ids).bind (·.mapM (findTask st)) with
    | some n, some ts => ({ st with qs := st.qs.filter (·.1 != n) ++ [(n, ts)] }, "ok")
    | _, _ => (st, "bad-op")
  | "setmeta" :: id :: rest =>
    match id.toNat?, parseCtxs ((kv? "ctxs" rest).getD "-"), natList? ((kv? "mons" rest).getD "-") with
    | some id, some c, some m =>
      let f : Task → Task := fun x => { x with ctxs := c, mons := m }
      ({ st with tasks := updTask f id st.tasks, qs := st.qs.map fun p => (p.1, updTask f id p.2) }, "ok")
    | _, _, _ => (st, "bad-op")
  | "combine" :: rest =>
    match parseCombine st rest with
    | none => (st, "bad-op")
    | some a =>
      let (out, qs') :=
        if a.twin then combineTwin st.qs a.passed a.t a.stop (appendEnv a.apps)
        else combineGo st.qs a.passed a.t a.stop (appendEnv a.apps)
      ({ st with prev := st.qs, qs := qs' }, s!"{showOut out} queues={showQs qs'}")
  | "oracle" :: "combine" :: rest =>
    match parseCombine { st with qs := st.prev } rest, parseOut rest, kv? "queues" rest with
    | some a, some out, some after => (st, oracleCombine st.prev a out after)
    | _, _, _ => (st, "bad-op")
  | "oracle" :: "untouched" :: rest =>
    match parseCombine { st with qs := st.prev } rest, parseOut rest, kv? "queues" rest with
    | some a, some out, some after => (st, oracleUntouched st.prev a out after)
    | _, _, _ => (st, "bad-op")
  | _ => (st, "bad-op")

def suite : Suite St := { init := {}, step := step }

end ShellOp.Drv.C07
