import ShellOp.Util
import ShellOp.Model.Queue
/-! Line-protocol suite for C05 (task queue). Core-only. -/
namespace ShellOp.Drv.C05
open ShellOp ShellOp.Util ShellOp.Queue

structure St where
  m : State := {}
  s : Spec.SState := {}
  prev : List Id := []      -- the ordinary list before the last operation (for the `iter` oracle)

def showItems (q : Items) : String :=
  if q.isEmpty then "-" else String.intercalate "," (q.map showOptNat)

def obs (st : State) (ret : String) : String :=
  s!"items={showItems st.items} len={st.items.length} first={showOptNat (getFirst st.items)} last={showOptNat (getLast st.items)} cur={showOptNat st.cur} ret={ret}"

def status? : String → Option Status
  | "success" => some .success | "fail" => some .fail
  | "repeat" => some .repeat | "keep" => some .keep | _ => none

def parseOp (toks : List String) : Option QOp :=
  match toks with
  | ["addFirst", t] => t.toNat?.map .addFirst
  | ["addLast", t] => t.toNat?.map .addLast
  | ["addAfter", i, t] => do some (.addAfter (← i.toNat?) (← t.toNat?))
  | ["addBefore", i, t] => do some (.addBefore (← i.toNat?) (← t.toNat?))
  | ["remove", i] => i.toNat?.map .remove
  | ["removeFirst"] => some .removeFirst
  | ["removeLast"] => some .removeLast
  | ["filter", k] => (natList? k).map .filter
  | ["pick"] => some .pick
  | "result" :: st :: rest => do
    let st ← status? st
    let h ← natList? ((kv? "h" rest).getD "-")
    let a ← natList? ((kv? "a" rest).getD "-")
    let t ← natList? ((kv? "t" rest).getD "-")
    some (.result st h a t)
  | _ => none

/-- What the real call returns (for the ops that return a task). -/
def retOf (st : State) : QOp → String
  | .remove id => showOptNat (remove st.items id).1
  | .removeFirst => showOptNat (removeFirst st.items).1
  | .removeLast => showOptNat (removeLast st.items).1
  | .pick => match st.cur with
    | some _ => "busy"
    | none => showOptNat (getFirst st.items)
  | _ => "-"

def parseSlots (s : String) : Option (List (Option Nat)) :=
  (strList s).mapM (fun x => if x == "nil" then some none else x.toNat?.map some)

def step (st : St) (toks : List String) : St × String :=
  match toks with
  | ["get", i] =>
    match i.toNat? with
    | some i => (st, obs st.m (showOptNat (get st.m.items i)))
    | none => (st, "bad-op")
  | ["iterRemove", k, i] =>
    -- a walk (Iterate) parked at its k-th element while Remove(i) is attempted: the walk holds the
    -- read lock, so it sees the list as it was and the removal waits for it
    match k.toNat?, i.toNat? with
    | some k, some i =>
      let before := st.m.items
      let op := QOp.remove i
      let ret := retOf st.m op
      let m' := Queue.step st.m op
      let blocked := if k < before.length then 1 else 0
      ({ m := m', s := Spec.step st.s op, prev := st.s.items },
        s!"seen={showItems before} blocked={blocked} " ++ obs m' ret)
    | _, _ => (st, "bad-op")
  | "oracle" :: "dump" :: rest =>
    -- the queue dump: per queue `name:reported:listed` must be `name:n:n` for the `name:n` of `want`, and the
    -- summary must report the total
    match kv? "want" rest, kv? "got" rest, (kv? "total" rest).bind String.toNat?, (kv? "sum" rest).bind String.toNat? with
    | some want, some got, some total, some sum =>
      let expect := (strList want).map fun w =>
        match w.splitOn ":" with
        | [n, k] => n ++ ":" ++ k ++ ":" ++ k
        | _ => w
      if strList got == expect && sum == total then (st, "true")
      else (st, s!"false want-got={showStrs expect} want-sum={total}")
    | _, _, _, _ => (st, "bad-op")
  | "oracle" :: "iter" :: rest =>
    -- what a walk over the queue shows is a list the queue held: the one before or the one after
    -- the concurrent removal
    match (kv? "seen" rest).bind parseSlots with
    | some seen =>
      if seen == st.prev.map some || seen == st.s.items.map some then (st, "true")
      else (st, s!"false before={showItems (st.prev.map some)} after={showItems (st.s.items.map some)}")
    | none => (st, "bad-op")
  | "oracle" :: rest =>
    -- the property itself, evaluated on what the implementation showed:
    -- items = the ordinary list's items (hence no nil slot) and Length() = their number
    match (kv? "items" rest).bind parseSlots, (kv? "len" rest).bind String.toNat? with
    | some items, some len =>
      let want := st.s.items.map some
      if items == want && len == st.s.items.length then (st, "true")
      else (st, s!"false want-items={showItems want} want-len={st.s.items.length}")
    | _, _ => (st, "bad-op")
  | _ =>
    match parseOp toks with
    | none => (st, "bad-op")
    | some op =>
      let ret := retOf st.m op
      let m' := Queue.step st.m op
      ({ m := m', s := Spec.step st.s op, prev := st.s.items }, obs m' ret)

def suite : Suite St := { init := {}, step := step }

end ShellOp.Drv.C05
