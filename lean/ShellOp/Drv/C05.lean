import ShellOp.Util
import ShellOp.Model.Queue
/-! Line-protocol suite for C05 (task queue). Core-only. -/
namespace ShellOp.Drv.C05
open ShellOp ShellOp.Util ShellOp.Queue

/-- One queue of the case: the code-shaped model, the ordinary list, and the ordinary list before
the last operation (for the `iter` oracle). -/
structure QSt where
  m : State := {}
  s : Spec.SState := {}
  prev : List Id := []

/-- A case may hold several live queues (`sel k` switches the one the op lines address). Each has
its own ordinary list: the specification of a set of queues is a family of independent lists. -/
structure St extends QSt where
  idx : Nat := 0
  others : List (Nat × QSt) := []

def St.queue (st : St) (k : Nat) : QSt :=
  if k == st.idx then st.toQSt else ((st.others.find? (·.1 == k)).map (·.2)).getD {}

def St.sel (st : St) (k : Nat) : St :=
  if k == st.idx then st else
    { toQSt := st.queue k, idx := k,
      others := (st.idx, st.toQSt) :: st.others.filter (fun p => p.1 != k && p.1 != st.idx) }

/-- Maximal runs of consecutive ascending ids: `(first slot, number of further slots)`. -/
def runsOf : Items → List (Slot × Nat)
  | [] => []
  | x :: xs =>
    match x, runsOf xs with
    | some a, (some b, k) :: rest =>
      if b == a + 1 then (some a, k + 1) :: rest else (some a, 0) :: (some b, k) :: rest
    | x, r => (x, 0) :: r

/-- Items as text; a run of >= 3 consecutive ascending ids `a..b` (as the harness writes it). -/
def showItems (q : Items) : String :=
  if q.isEmpty then "-" else
    String.intercalate "," ((runsOf q).map fun
      | (some a, 0) => toString a
      | (some a, 1) => toString a ++ "," ++ toString (a + 1)
      | (some a, k) => toString a ++ ".." ++ toString (a + k)
      | (none, _) => "nil")

/-- `a..b` → a, a+1, …, b. -/
def expandTok (x : String) : Option (List Nat) :=
  match x.splitOn ".." with
  | [a] => a.toNat?.map ([·])
  | [a, b] => do
    let a ← a.toNat?
    let b ← b.toNat?
    if a ≤ b then some ((List.range (b - a + 1)).map (· + a)) else none
  | _ => none

def natListR? (s : String) : Option (List Nat) :=
  (strList s).mapM expandTok |>.map List.flatten

def obs (st : State) (ret : String) : String :=
  s!"items={showItems st.items} len={st.items.length} first={showOptNat (getFirst st.items)} last={showOptNat (getLast st.items)} cur={showOptNat st.cur} ret={ret}"

def status? : String → Option Status
  | "success" => some .success | "fail" => some .fail
  | "repeat" => some .repeat | "keep" => some .keep | _ => none

def parseOp (toks : List String) : Option QOp :=
  match toks with
  | ["addFirst", t] => t.toNat?.map .addFirst
  | ["addLast", t] => t.toNat?.map .addLast
  | ["addAfter", i, t] => do some (.addAfter (← i.toNat?) (← t.toNat?))
  | ["addBefore", i, t] => do some (.addBefore (← i.toNat?) (← t.toNat?))
  | ["remove", i] => i.toNat?.map .remove
  | ["removeFirst"] => some .removeFirst
  | ["removeLast"] => some .removeLast
  | ["filter", k] => (natListR? k).map .filter
  | ["pick"] => some .pick
  | "result" :: st :: rest => do
    let st ← status? st
    let h ← natListR? ((kv? "h" rest).getD "-")
    let a ← natListR? ((kv? "a" rest).getD "-")
    let t ← natListR? ((kv? "t" rest).getD "-")
    some (.result st h a t)
  | _ => none

/-- What the real call returns (for the ops that return a task). -/
def retOf (st : State) : QOp → String
  | .remove id => showOptNat (remove st.items id).1
  | .removeFirst => showOptNat (removeFirst st.items).1
  | .removeLast => showOptNat (removeLast st.items).1
  | .pick => match st.cur with
    | some _ => "busy"
    | none => showOptNat (getFirst st.items)
  | _ => "-"

def parseSlots (s : String) : Option (List (Option Nat)) :=
  (strList s).mapM (fun x => if x == "nil" then some [none] else (expandTok x).map (·.map some))
    |>.map List.flatten

def step (st : St) (toks : List String) : St × String :=
  match toks with
  | ["get", i] =>
    match i.toNat? with
    | some i => (st, obs st.m (showOptNat (get st.m.items i)))
    | none => (st, "bad-op")
  | ["iterRemove", k, i] =>
    -- a walk (Iterate) parked at its k-th element while Remove(i) is attempted: the walk holds the
    -- read lock, so it sees the list as it was and the removal waits for it
    match k.toNat?, i.toNat? with
    | some k, some i =>
      let before := st.m.items
      let op := QOp.remove i
      let ret := retOf st.m op
      let m' := Queue.step st.m op
      let blocked := if k < before.length then 1 else 0
      ({ st with m := m', s := Spec.step st.s op, prev := st.s.items },
        s!"seen={showItems before} blocked={blocked} " ++ obs m' ret)
    | _, _ => (st, "bad-op")
  | "oracle" :: "dump" :: rest =>
    -- the queue dump: per queue `name:reported:listed` must be `name:n:n` for the `name:n` of `want`, and the
    -- summary must report the total
    match kv? "want" rest, kv? "got" rest, (kv? "total" rest).bind String.toNat?, (kv? "sum" rest).bind String.toNat? with
    | some want, some got, some total, some sum =>
      let expect := (strList want).map fun w =>
        match w.splitOn ":" with
        | [n, k] => n ++ ":" ++ k ++ ":" ++ k
        | _ => w
      if strList got == expect && sum == total then (st, "true")
      else (st, s!"false want-got={showStrs expect} want-sum={total}")
    | _, _, _, _ => (st, "bad-op")
  | "oracle" :: "iter" :: rest =>
    -- what a walk over the queue shows is a list the queue held: the one before or the one after
    -- the concurrent removal
    match (kv? "seen" rest).bind parseSlots with
    | some seen =>
      if seen == st.prev.map some || seen == st.s.items.map some then (st, "true")
      else (st, s!"false before={showItems (st.prev.map some)} after={showItems (st.s.items.map some)}")
    | none => (st, "bad-op")
  | ["sel", k] =>
    match k.toNat? with
    | some k => (st.sel k, "-")
    | none => (st, "bad-op")
  | "oracle" :: rest =>
    -- the property itself, evaluated on what the implementation showed:
    -- items = the ordinary list's items (hence no nil slot) and Length() = their number;
    -- `q=k`: asked about queue k of the case (default: the selected one) — an operation on one queue
    -- is not an operation on another one's list
    let k? : Option Nat := match kv? "q" rest with
      | none => some st.idx
      | some k => k.toNat?
    match k?, (kv? "items" rest).bind parseSlots, (kv? "len" rest).bind String.toNat? with
    | some k, some items, some len =>
      let sp := (st.queue k).s.items
      let want := sp.map some
      if items == want && len == sp.length then (st, "true")
      else (st, s!"false want-items={showItems want} want-len={sp.length}")
    | _, _, _ => (st, "bad-op")
  | _ =>
    match parseOp toks with
    | none => (st, "bad-op")
    | some op =>
      let ret := retOf st.m op
      let m' := Queue.step st.m op
      ({ st with m := m', s := Spec.step st.s op, prev := st.s.items }, obs m' ret)

def suite : Suite St := { init := {}, step := step }

end ShellOp.Drv.C05
