import ShellOp.Util
import ShellOp.Model.Config
/-! Line-protocol suite for C10 (hook config). Core-only.

Declaration lines build the typed document (`doc`, `settings`, `onstartup`, `kube`, `sched`, `val`, `mut`,
`conv`, `kube0`, `sched0`, `policy`); `convert` runs the model; `eff …` lines print the model's effective
configuration item by item; `oracle …` lines carry what the implementation showed and are judged by the
specification (`Spec.*`: documented defaults with literal values, order-preserving union, unambiguous
includes), not by the model. -/
namespace ShellOp.Drv.C10
open ShellOp ShellOp.Util ShellOp.Config

structure St where
  v0 : Bool := false
  policy : String := "Fail"
  d1 : DocV1 := {}
  d0 : DocV0 := {}
  res : Option (Except Err Effective) := none
  seen : Effective := {}      -- the implementation's effective config, collected from the oracle lines

/-! ### tokens -/

def str (s : String) : String := if s == "_" then "" else s
def showStr (s : String) : String := if s == "" then "_" else s
def lst (s : String) : List String := if s == "-" || s == "" then [] else s.splitOn ","
def optLst (s : String) : Option (List String) := if s == "~" then none else some (lst s)
def showLst (l : List String) : String := if l.isEmpty then "-" else String.intercalate "," l
def bit? : String → Option Bool
  | "1" => some true | "0" => some false | _ => none
def showBit (b : Bool) : String := if b then "1" else "0"
/-- crontab tokens carry `␣` for a blank, `⇥` for a tab, `↵` for a newline, `↩` for a carriage return -/
def cronChar (c : Char) : Char :=
  if c == '␣' then ' ' else if c == '⇥' then '\t' else if c == '↵' then '\n' else if c == '↩' then '\r' else c
def showCronChar (c : Char) : Char :=
  if c == ' ' then '␣' else if c == '\t' then '⇥' else if c == '\n' then '↵' else if c == '\r' then '↩' else c
def cron (s : String) : String := if s == "_" then "" else String.ofList (s.toList.map cronChar)
def showCron (s : String) : String := if s == "" then "_" else String.ofList (s.toList.map showCronChar)
def optStr (s : String) : Option String := if s == "~" then none else some (str s)

def get (k : String) (toks : List String) : Option String := kv? k toks
def getD (k : String) (toks : List String) (d : String) : String := (kv? k toks).getD d

def parseKube (t : List String) : Option KubeV1 := do
  some { name := str (← get "name" t), apiVersionOK := ← bit? (getD "av" t "1"), labelSelOK := ← bit? (getD "ls" t "1"),
         fieldSelOK := ← bit? (getD "fs" t "1"), nameSelNonEmpty := ← bit? (getD "nsne" t "0"),
         fieldSelOnName := ← bit? (getD "fson" t "0"), execEvents := optLst (getD "ee" t "~"),
         watchEvents := optLst (getD "we" t "~"), execOnSync := str (getD "sync" t "_"),
         waitForSync := str (getD "wait" t "_"), keepFull := str (getD "keep" t "_"),
         allowFailure := ← bit? (getD "af" t "0"), includes := lst (getD "inc" t "-"), queue := str (getD "q" t "_"),
         group := str (getD "g" t "_"), passthru := getD "pt" t "" }

def parseSched (t : List String) : Option SchedV1 := do
  some { name := str (← get "name" t), crontab := cron (← get "c" t), parseOK := ← bit? (getD "cok" t "1"),
         allowFailure := ← bit? (getD "af" t "0"), includes := lst (getD "inc" t "-"), queue := str (getD "q" t "_"),
         group := str (getD "g" t "_") }

def parseAdm (t : List String) : Option AdmV1 := do
  let to ← match getD "to" t "~" with
    | "~" => some none
    | s => (int? s).map some
  some { name := str (← get "name" t), includes := lst (getD "inc" t "-"), group := str (getD "g" t "_"),
         labelSelOK := ← bit? (getD "ls" t "1"), nsSelOK := ← bit? (getD "ns" t "1"),
         failurePolicy := optStr (getD "fp" t "~"), sideEffects := optStr (getD "sf" t "~"), timeout := to,
         webhookOK := ← bit? (getD "wok" t "1"), passthru := getD "pt" t "" }

def parseConv (t : List String) : Option ConvV1 := do
  some { name := str (← get "name" t), includes := lst (getD "inc" t "-"), group := str (getD "g" t "_"),
         passthru := getD "pt" t "" }

/-! ### rendering of effective items (the same format on both sides) -/

def showKube (v0 : Bool) (k : KubeEff) : String :=
  let flags := if v0 then "sync=* wait=* keep=*"
    else s!"sync={showBit k.execOnSync} wait={showBit k.waitForSync} keep={showBit k.keepFull}"
  s!"name={showStr k.name} ev={showLst k.events} {flags} af={showBit k.allowFailure} inc={showLst k.includes} q={showStr k.queue} g={showStr k.group} pt={k.passthru}"

def showSched (s : SchedEff) : String :=
  s!"name={showStr s.name} c={showCron s.crontab} af={showBit s.allowFailure} inc={showLst s.includes} q={showStr s.queue} g={showStr s.group}"

def showAdm (a : AdmEff) : String :=
  s!"name={showStr a.name} inc={showLst a.includes} g={showStr a.group} fp={showStr a.failurePolicy} sf={showStr a.sideEffects} to={a.timeout} pt={a.passthru}"

def showConv (c : ConvEff) : String :=
  s!"name={showStr c.name} inc={showLst c.includes} g={showStr c.group} pt={c.passthru}"

def flag? (v0 : Bool) (s : String) : Option Bool := if v0 && s == "*" then some false else bit? s

def parseKubeEff (v0 : Bool) (t : List String) : Option KubeEff := do
  some { name := str (← get "name" t), events := lst (← get "ev" t), execOnSync := ← flag? v0 (← get "sync" t),
         waitForSync := ← flag? v0 (← get "wait" t), keepFull := ← flag? v0 (← get "keep" t),
         allowFailure := ← bit? (← get "af" t), includes := lst (← get "inc" t), queue := str (← get "q" t),
         group := str (← get "g" t), passthru := ← get "pt" t }

def parseSchedEff (t : List String) : Option SchedEff := do
  some { name := str (← get "name" t), crontab := cron (← get "c" t), allowFailure := ← bit? (← get "af" t),
         includes := lst (← get "inc" t), queue := str (← get "q" t), group := str (← get "g" t) }

def parseAdmEff (t : List String) : Option AdmEff := do
  some { name := str (← get "name" t), includes := lst (← get "inc" t), group := str (← get "g" t),
         failurePolicy := str (← get "fp" t), sideEffects := str (← get "sf" t), timeout := ← int? (← get "to" t),
         passthru := ← get "pt" t }

def parseConvEff (t : List String) : Option ConvEff := do
  some { name := str (← get "name" t), includes := lst (← get "inc" t), group := str (← get "g" t), passthru := ← get "pt" t }

def showOptInt : Option Int → String
  | none => "~" | some v => toString v

/-! ### the specification's expectation for one declared binding -/

def specKubes (st : St) : List KubeEff := st.d1.kubes.map Spec.kubeDefaults

def wantKube (st : St) (i : Nat) : Option KubeEff :=
  if st.v0 then
    (st.d0.kubes[i]?).map (fun k =>
      { name := if k.name == "" then "onKubernetesEvent" else k.name
        events := k.events.map (fun ev => if ev == "add" then "Added" else if ev == "update" then "Modified" else "Deleted")
        execOnSync := false, waitForSync := false, keepFull := false, allowFailure := k.allowFailure, includes := [],
        queue := "main", group := "", passthru := k.passthru })
  else
    (st.d1.kubes[i]?).map (fun k =>
      let e := Spec.kubeDefaults k
      { e with includes := Spec.groupIncludes (specKubes st) k.group k.includes })

def wantSched (st : St) (i : Nat) : Option SchedEff :=
  if st.v0 then
    (st.d0.scheds[i]?).map (fun s =>
      { name := if s.name == "" then "schedule" else s.name, crontab := s.crontab, allowFailure := s.allowFailure,
        includes := [], queue := "main", group := "" })
  else
    (st.d1.scheds[i]?).map (fun s =>
      { Spec.schedDefaults s with includes := Spec.groupIncludes (specKubes st) s.group s.includes })

def wantAdm (st : St) (mutating : Bool) (i : Nat) : Option AdmEff :=
  let l := if mutating then st.d1.mutating else st.d1.validating
  (l[i]?).map (fun a =>
    { Spec.admDefaults (if mutating then "Fail" else st.policy) a with
      includes := Spec.groupIncludes (specKubes st) a.group a.includes })

def wantConv (st : St) (i : Nat) : Option ConvEff :=
  (st.d1.conversions[i]?).map (fun c =>
    { name := c.name, includes := Spec.groupIncludes (specKubes st) c.group c.includes, group := c.group, passthru := c.passthru })

def verdict {α : Type} [BEq α] (seen : Option α) (want : Option α) (render : α → String) : String :=
  match seen, want with
  | some s, some w => if s == w then "true" else s!"false want: {render w}"
  | none, _ => "bad-op"
  | some _, none => "false no-such-declared-binding"

instance : BEq KubeEff := ⟨fun a b => decide (a = b)⟩
instance : BEq SchedEff := ⟨fun a b => decide (a = b)⟩
instance : BEq AdmEff := ⟨fun a b => decide (a = b)⟩
instance : BEq ConvEff := ⟨fun a b => decide (a = b)⟩

def effOf (st : St) : Option Effective :=
  match st.res with
  | some (.ok e) => some e
  | _ => none

def declaredCounts (st : St) : String :=
  if st.v0 then s!"k={st.d0.kubes.length} s={st.d0.scheds.length} v=0 m=0 c=0"
  else s!"k={st.d1.kubes.length} s={st.d1.scheds.length} v={st.d1.validating.length} m={st.d1.mutating.length} c={st.d1.conversions.length}"

/-- Every kubernetes binding of a group is among the includes of every binding of that group. -/
def groupsServed (e : Effective) : Bool :=
  let ok := fun (g : String) (incl : List String) =>
    g == "" || (e.kubes.filter (fun k => k.group == g)).all (fun k => incl.contains k.name)
  e.kubes.all (fun b => ok b.group b.includes) && e.scheds.all (fun b => ok b.group b.includes) &&
  e.validating.all (fun b => ok b.group b.includes) && e.mutating.all (fun b => ok b.group b.includes) &&
  e.conversions.all (fun b => ok b.group b.includes)

def step (st : St) (toks : List String) : St × String :=
  match toks with
  | ["doc", "v1"] => ({ policy := st.policy }, "ok")
  | ["doc", "v0"] => ({ policy := st.policy, v0 := true }, "ok")
  | ["policy", p] => ({ st with policy := p }, "ok")
  | ["settings", i, b] =>
    let pi := if i == "err" then some none else (int? i).map some
    let pb := if b == "err" then some none else (int? b).map some
    match pi, pb with
    | some pi, some pb => ({ st with d1 := { st.d1 with settings := some ⟨pi, pb⟩ } }, "ok")
    | _, _ => (st, "bad-op")
  | ["onstartup", v] =>
    let r : Option OnStartupRaw := if v == "other" then some .other else (int? v).map .num
    match r with
    | some r => ({ st with d1 := { st.d1 with onStartup := r }, d0 := { st.d0 with onStartup := r } }, "ok")
    | none => (st, "bad-op")
  | "kube" :: t =>
    match parseKube t with
    | some k => ({ st with d1 := { st.d1 with kubes := st.d1.kubes ++ [k] } }, "ok")
    | none => (st, "bad-op")
  | "sched" :: t =>
    match parseSched t with
    | some s => ({ st with d1 := { st.d1 with scheds := st.d1.scheds ++ [s] } }, "ok")
    | none => (st, "bad-op")
  | "val" :: t =>
    match parseAdm t with
    | some a => ({ st with d1 := { st.d1 with validating := st.d1.validating ++ [a] } }, "ok")
    | none => (st, "bad-op")
  | "mut" :: t =>
    match parseAdm t with
    | some a => ({ st with d1 := { st.d1 with mutating := st.d1.mutating ++ [a] } }, "ok")
    | none => (st, "bad-op")
  | "conv" :: t =>
    match parseConv t with
    | some c => ({ st with d1 := { st.d1 with conversions := st.d1.conversions ++ [c] } }, "ok")
    | none => (st, "bad-op")
  | "sched0" :: t =>
    match get "name" t, get "c" t, (get "cok" t).bind bit?, (get "af" t).bind bit? with
    | some n, some c, some cok, some af =>
      ({ st with d0 := { st.d0 with scheds := st.d0.scheds ++ [{ name := str n, crontab := cron c, parseOK := cok, allowFailure := af }] } }, "ok")
    | _, _, _, _ => (st, "bad-op")
  | "kube0" :: t =>
    match get "name" t, get "ev" t, (get "af" t).bind bit?, get "pt" t with
    | some n, some ev, some af, some pt =>
      ({ st with d0 := { st.d0 with kubes := st.d0.kubes ++ [{ name := str n, events := lst ev, allowFailure := af, passthru := pt }] } }, "ok")
    | _, _, _, _ => (st, "bad-op")
  | ["convert"] =>
    let r := if st.v0 then convertV0 st.d0 else convertV1 st.policy st.d1
    ({ st with res := some r }, match r with | .ok _ => "ok" | .error _ => "err")
  | ["eff", "counts"] =>
    match effOf st with
    | some e => (st, s!"k={e.kubes.length} s={e.scheds.length} v={e.validating.length} m={e.mutating.length} c={e.conversions.length}")
    | none => (st, "none")
  | ["eff", "settings"] =>
    match effOf st with
    | some e => (st, match e.settings with | none => "~" | some (i, b) => s!"{i} {b}")
    | none => (st, "none")
  | ["eff", "onstartup"] =>
    match effOf st with
    | some e => (st, showOptInt e.onStartup)
    | none => (st, "none")
  | ["eff", kind, i] =>
    match effOf st, i.toNat? with
    | some e, some i =>
      let r : Option String := match kind with
        | "kube" => (e.kubes[i]?).map (showKube st.v0)
        | "sched" => (e.scheds[i]?).map showSched
        | "val" => (e.validating[i]?).map showAdm
        | "mut" => (e.mutating[i]?).map showAdm
        | "conv" => (e.conversions[i]?).map showConv
        | _ => none
      (st, r.getD "bad-op")
    | _, _ => (st, "none")
  -- the specification judging what the implementation showed
  | ["oracle", "counts", k, s, v, m, c] =>
    if s!"{k} {s} {v} {m} {c}" == declaredCounts st then (st, "true") else (st, s!"false declared: {declaredCounts st}")
  | ["oracle", "settings", i, b] =>
    let want := match st.d1.settings with
      | some ⟨some i, some b⟩ => s!"{i} {b}"
      | _ => "~"
    if s!"{i} {b}" == want || (i == "~" && b == "~" && want == "~") then (st, "true") else (st, s!"false want: {want}")
  | ["oracle", "onstartup", v] =>
    let raw := if st.v0 then st.d0.onStartup else st.d1.onStartup
    let want := match raw with | .num x => toString x | _ => "~"
    if v == want then (st, "true") else (st, s!"false want: {want}")
  | "oracle" :: "kube" :: i :: t =>
    match i.toNat? with
    | some i =>
      let seen := parseKubeEff st.v0 t
      let st' := match seen with
        | some k => { st with seen := { st.seen with kubes := st.seen.kubes ++ [k] } }
        | none => st
      (st', verdict seen (wantKube st i) (showKube st.v0))
    | none => (st, "bad-op")
  | "oracle" :: "sched" :: i :: t =>
    match i.toNat? with
    | some i =>
      let seen := parseSchedEff t
      let st' := match seen with
        | some k => { st with seen := { st.seen with scheds := st.seen.scheds ++ [k] } }
        | none => st
      (st', verdict seen (wantSched st i) showSched)
    | none => (st, "bad-op")
  | "oracle" :: "val" :: i :: t =>
    match i.toNat? with
    | some i =>
      let seen := parseAdmEff t
      let st' := match seen with
        | some k => { st with seen := { st.seen with validating := st.seen.validating ++ [k] } }
        | none => st
      (st', verdict seen (wantAdm st false i) showAdm)
    | none => (st, "bad-op")
  | "oracle" :: "mut" :: i :: t =>
    match i.toNat? with
    | some i =>
      let seen := parseAdmEff t
      let st' := match seen with
        | some k => { st with seen := { st.seen with mutating := st.seen.mutating ++ [k] } }
        | none => st
      (st', verdict seen (wantAdm st true i) showAdm)
    | none => (st, "bad-op")
  | "oracle" :: "conv" :: i :: t =>
    match i.toNat? with
    | some i =>
      let seen := parseConvEff t
      let st' := match seen with
        | some k => { st with seen := { st.seen with conversions := st.seen.conversions ++ [k] } }
        | none => st
      (st', verdict seen (wantConv st i) showConv)
    | none => (st, "bad-op")
  | ["oracle", "includes"] =>
    -- on the effective configuration the implementation showed (collected above)
    if !Spec.effIncludesOK st.seen then (st, "false an effective includeSnapshotsFrom name is unknown or ambiguous")
    else if !groupsServed st.seen then (st, "false a binding of a group misses a kubernetes binding of the group")
    else (st, "true")
  | ["oracle", "schedusable", _, c, k] =>
    -- "bad crontabs are rejected", read on the EFFECTIVE configuration the implementation showed
    -- (`Spec.goodCrontab`, theorem `loaded_crontabs_good`): the crontab text a loaded schedule carries is
    -- what the schedule manager hands to the cron library; `cok` is that library's verdict on this very text
    match kv? "c" [c], (kv? "cok" [k]).bind bit? with
    | some c, some ok =>
      if Spec.goodCrontab (cron c) ok then (st, "true")
      else (st, "false the loaded configuration carries a crontab the scheduler cannot parse (a bad crontab was not rejected)")
    | _, _ => (st, "bad-op")
  | ["oracle", "verdict", o] =>
    -- the "rejected" clause on the DECLARED document (`Spec.mustReject`, theorem `rejects_spec`) against the
    -- verdict the implementation showed: a document with a bad crontab, an invalid selector (object or
    -- namespace, kubernetes / validating / mutating) or an unknown / ambiguous include must not load
    let why : Option String :=
      if st.v0 then (if st.d0.scheds.any (fun s => !s.parseOK || zeroStep s.crontab) then some "bad-crontab" else none)
      else Spec.rejectReason st.d1
    match kv? "out" [o] with
    | some "ok" =>
      match why with
      | some w => (st, s!"false accepted a document that must be rejected: {w}")
      | none => (st, "true")
    | some _ => (st, "true")
    | none => (st, "bad-op")
  | ["oracle", "reject", _, v] =>
    match kv? "verdict" [v] with
    | some "err" => (st, "true")
    | some "ok" => (st, "false accepted")
    | _ => (st, "bad-op")
  | ["oracle", "same", y, j] =>
    match kv? "yaml" [y], kv? "json" [j] with
    | some a, some b => if a == b then (st, "true") else (st, "false yaml and json load differently")
    | _, _ => (st, "bad-op")
  | ["oracle", "nopanic", o] =>
    match kv? "out" [o] with
    | some "err" => (st, "true")
    | some "ok" => (st, "true")
    | some o => (st, s!"false {o}")
    | none => (st, "bad-op")
  | _ => (st, "bad-op")

def suite : Suite St := { init := {}, step := step }

end ShellOp.Drv.C10
