import ShellOp.Util
import ShellOp.Model.Metrics
import ShellOp.Model.MetricsText
/-! Line-protocol suite for C16 (hook metrics). Core-only. -/
namespace ShellOp.Drv.C16
open ShellOp ShellOp.Util ShellOp.Metrics

structure St where
  m : State := {}
  ref : List Spec.RSeries := []
  pending : List Op := []
  last : List Op := []
  lastCommon : Labels := []
  unrepaired : Bool := false
  /-- batches of the concurrent step being collected: (common labels, operations, map order) -/
  par : List (Labels × List Op × List Nat) := []
  lastPar : List (Labels × List Op) := []
  /-- text of the metrics file of the last `tsend` -/
  lastText : List Char := []

def parseLabels (s : String) : Option Labels :=
  if s == "-" || s == "" then some []
  else (s.splitOn ";").mapM fun kv =>
    match kv.splitOn ":" with
    | [k, v] => do some ((← k.toNat?), (← v.toNat?))
    | _ => none

def optInt (key : String) (toks : List String) : Option (Option Int) :=
  match kv? key toks with
  | none => some none
  | some "-" => some none
  | some v => (int? v).map some

/-- a label with an empty value (id 0) is not shown: for prometheus it is the same as no label. -/
def showLabels (l : Labels) : String :=
  String.intercalate "," ((l.filter (·.2 != 0)).map fun (k, v) => s!"{k}:{v}")

def showSeries (n : Nat) (l : Labels) (v : Int) (c : Nat) : String := s!"{n}\{{showLabels l}}={v}/{c}"

def sortStrs (l : List String) : List String := (l.toArray.qsort (· < ·)).toList

def showDump (l : List String) : String :=
  if l.isEmpty then "-" else String.intercalate ";" (sortStrs l)

def dumpModel (st : State) : String :=
  showDump (st.uentries.map (fun e => showSeries e.name e.key e.val e.cnt)
    ++ st.gentries.map (fun e => showSeries e.name e.key e.val 0))

def dumpRef (ref : List Spec.RSeries) : String :=
  showDump (ref.map fun e => showSeries e.name e.labels e.val e.cnt)

/-- all orders in which a list can be arranged (with the positions kept for the per-call results). -/
def perms {α : Type} : List α → List (List α)
  | [] => [[]]
  | x :: xs => (perms xs).flatMap fun p =>
      (List.range (p.length + 1)).map fun i => p.take i ++ [x] ++ p.drop i

def showErrs (l : List Bool) : String :=
  String.intercalate "," (l.map fun ok => if ok then "0" else "1")

/-- the reference registry taken through the batches in one order: the final registry and, per
batch index, whether the call succeeded. -/
def refLinear (ref : List Spec.RSeries) (bs : List (Nat × Labels × List Op)) :
    List Spec.RSeries × List (Nat × Bool) :=
  bs.foldl (fun (acc : List Spec.RSeries × List (Nat × Bool)) b =>
    let (r', ok) := Spec.applyBatch acc.1 b.2.1 b.2.2
    (r', acc.2 ++ [(b.1, ok)])) (ref, [])

def errsByIndex (n : Nat) (res : List (Nat × Bool)) : List Bool :=
  (List.range n).map fun i => (res.lookup i).getD false

def hexVal (c : Char) : Option Nat :=
  if c.isDigit then some (c.toNat - '0'.toNat)
  else if 'a' ≤ c && c ≤ 'f' then some (c.toNat - 'a'.toNat + 10)
  else none

def unhexL : List Char → Option (List Char)
  | [] => some []
  | a :: b :: r => do
    let x ← hexVal a
    let y ← hexVal b
    let t ← unhexL r
    some (Char.ofNat (16 * x + y) :: t)
  | _ => none

/-- File text from its hex bytes (`-` = empty). -/
def unhex (s : String) : Option (List Char) :=
  if s == "-" || s == "" then some [] else unhexL s.toList

def step (st : St) (toks : List String) : St × String :=
  match toks with
  | "op" :: rest =>
    match (kv? "name" rest).bind String.toNat?, (kv? "group" rest).bind String.toNat?, kv? "action" rest,
          optInt "value" rest, optInt "add" rest, optInt "set" rest, kv? "buckets" rest,
          (kv? "labels" rest).bind parseLabels with
    | some name, some group, some action, some value, some add, some set, some b, some labels =>
      let op : Op := { name, group, action := if action == "-" then "" else action, value, add, set,
                       buckets := b == "1", labels }
      ({ st with pending := st.pending ++ [normalize op] }, "ok")
    | _, _, _, _, _, _, _, _ => (st, "bad-op")
  | "send" :: rest =>
    match (kv? "hooklabel" rest).bind String.toNat?, (kv? "hook" rest).bind String.toNat?,
          (kv? "order" rest).bind natList? with
    | some hl, some h, some order =>
      let common : Labels := [(hl, h)]
      let (m', ok) := sendBatch st.m common st.pending order
      ({ st with m := m', pending := [], last := st.pending, lastCommon := common },
        s!"err={if ok then 0 else 1} {dumpModel m'}")
    | _, _, _ => (st, "bad-op")
  | "tsend" :: rest =>
    -- a metrics FILE: its bytes through the reader (`HookOutput.fromReader`, what `Hook.Run` does), then
    -- — only if the reader got through — the operations it spells (the preceding `op` lines) through
    -- `SendBatch` (what `handleRunHook` does)
    match (kv? "hooklabel" rest).bind String.toNat?, (kv? "hook" rest).bind String.toNat?,
          (kv? "order" rest).bind natList?, (kv? "hex" rest).bind unhex with
    | some hl, some h, some order, some text =>
      let common : Labels := [(hl, h)]
      let fin (r : State × Bool) : St × String :=
        ({ st with m := r.1, pending := [], last := st.pending, lastCommon := common, lastText := text },
          s!"err={if r.2 then 0 else 1} {dumpModel r.1}")
      match MetricsText.fromFile text with
      | none => fin (MetricsText.runFile st.m common text st.pending order)
      | some ms =>
        if MetricsText.abstractsAll ms st.pending then
          fin (MetricsText.runFile st.m common text st.pending order)
        else if !ms.all HookOutput.validOp then
          -- the reader got through a damaged text that decodes to other documents than the `op` lines: EVERY
          -- typed reading of what it decoded is an invalid batch (`rejected_file_noop`), so the answer does
          -- not depend on the `op` lines
          fin (st.m, false)
        else (st, "text-does-not-spell-the-op-lines")
    | _, _, _, _ => (st, "bad-op")
  | ["oracle", "tsend", err, dump] =>
    -- the first clause of the property on the FILE the hook wrote: unless the file is a well-formed stream
    -- of documents that are all valid metric operations, the execution fails and the registry shows what
    -- it showed before; otherwise the reference registry takes the batch
    let (ref', ok) :=
      if HookOutput.metricsOk st.lastText then Spec.applyBatch st.ref st.lastCommon st.last
      else (st.ref, false)
    let want := s!"err={if ok then 0 else 1} dump={dumpRef ref'}"
    if s!"{err} {dump}" == want then ({ st with ref := ref' }, "true")
    else ({ st with ref := ref' }, s!"false want {want}")
  | "pbatch" :: rest =>
    match (kv? "hooklabel" rest).bind String.toNat?, (kv? "hook" rest).bind String.toNat?,
          (kv? "order" rest).bind natList? with
    | some hl, some h, some order =>
      ({ st with par := st.par ++ [([(hl, h)], st.pending, order)], pending := [] }, "ok")
    | _, _, _ => (st, "bad-op")
  | ["psend"] =>
    -- the code-shaped model, calls taken one after the other in the listed order
    let (m', oks) := st.par.foldl (fun (acc : State × List Bool) b =>
      let (m', ok) := sendBatch acc.1 b.1 b.2.1 b.2.2
      (m', acc.2 ++ [ok])) (st.m, [])
    ({ st with m := m', par := [], lastPar := st.par.map fun b => (b.1, b.2.1) },
      s!"errs={showErrs oks} {dumpModel m'}")
  | ["oracle", "psend", errs, dump] =>
    -- concurrent calls: SOME linearisation of the batches through the reference registry must show
    -- exactly what the scrape showed after all calls returned, with these return values
    let n := st.lastPar.length
    let idx := (List.range n).zip st.lastPar
    let cands := (perms idx).map fun p =>
      let (r', res) := refLinear st.ref p
      (r', s!"errs={showErrs (errsByIndex n res)} dump={dumpRef r'}")
    let got := s!"{errs} {dump}"
    match cands.find? (fun c => c.2 == got) with
    | some c => ({ st with ref := c.1 }, "true")
    | none =>
      match cands with
      | c :: _ => ({ st with ref := c.1 }, s!"false no-linearisation-shows-this e.g. want {c.2}")
      | [] => (st, "bad-op")
  | ["oracle", "send", err, dump] =>
    -- the reference registry (the property) against what the implementation's scrape showed
    let (ref', ok) := Spec.applyBatch st.ref st.lastCommon st.last
    let want := s!"err={if ok then 0 else 1} dump={dumpRef ref'}"
    if s!"{err} {dump}" == want then ({ st with ref := ref' }, "true")
    else ({ st with ref := ref' }, s!"false want {want}")
  | _ => (st, "bad-op")

def suite : Suite St := { init := {}, step := step }

end ShellOp.Drv.C16
