import ShellOp.Util
import ShellOp.Model.Metrics
/-! Line-protocol suite for C16 (hook metrics). Core-only. -/
namespace ShellOp.Drv.C16
open ShellOp ShellOp.Util ShellOp.Metrics

structure St where
  m : State := {}
  ref : List Spec.RSeries := []
  pending : List Op := []
  last : List Op := []
  lastCommon : Labels := []
  unrepaired : Bool := false

def parseLabels (s : String) : Option Labels :=
  if s == "-" || s == "" then some []
  else (s.splitOn ";").mapM fun kv =>
    match kv.splitOn ":" with
    | [k, v] => do some ((← k.toNat?), (← v.toNat?))
    | _ => none

def optInt (key : String) (toks : List String) : Option (Option Int) :=
  match kv? key toks with
  | none => some none
  | some "-" => some none
  | some v => (int? v).map some

def showLabels (l : Labels) : String :=
  String.intercalate "," (l.map fun (k, v) => s!"{k}:{v}")

def showSeries (n : Nat) (l : Labels) (v : Int) (c : Nat) : String := s!"{n}\{{showLabels l}}={v}/{c}"

def sortStrs (l : List String) : List String := (l.toArray.qsort (· < ·)).toList

def showDump (l : List String) : String :=
  if l.isEmpty then "-" else String.intercalate ";" (sortStrs l)

def dumpModel (st : State) : String :=
  showDump (st.uentries.map (fun e => showSeries e.name e.key e.val e.cnt)
    ++ st.gentries.map (fun e => showSeries e.name e.key e.val 0))

def dumpRef (ref : List Spec.RSeries) : String :=
  showDump (ref.map fun e => showSeries e.name e.labels e.val e.cnt)

def step (st : St) (toks : List String) : St × String :=
  match toks with
  | "op" :: rest =>
    match (kv? "name" rest).bind String.toNat?, (kv? "group" rest).bind String.toNat?, kv? "action" rest,
          optInt "value" rest, optInt "add" rest, optInt "set" rest, kv? "buckets" rest,
          (kv? "labels" rest).bind parseLabels with
    | some name, some group, some action, some value, some add, some set, some b, some labels =>
      let op : Op := { name, group, action := if action == "-" then "" else action, value, add, set,
                       buckets := b == "1", labels }
      ({ st with pending := st.pending ++ [normalize op] }, "ok")
    | _, _, _, _, _, _, _, _ => (st, "bad-op")
  | "send" :: rest =>
    match (kv? "hooklabel" rest).bind String.toNat?, (kv? "hook" rest).bind String.toNat?,
          (kv? "order" rest).bind natList? with
    | some hl, some h, some order =>
      let common : Labels := [(hl, h)]
      let (m', ok) := sendBatch st.m common st.pending order
      ({ st with m := m', pending := [], last := st.pending, lastCommon := common },
        s!"err={if ok then 0 else 1} {dumpModel m'}")
    | _, _, _ => (st, "bad-op")
  | ["oracle", "send", err, dump] =>
    -- the reference registry (the property) against what the implementation's scrape showed
    let (ref', ok) := Spec.applyBatch st.ref st.lastCommon st.last
    let want := s!"err={if ok then 0 else 1} dump={dumpRef ref'}"
    if s!"{err} {dump}" == want then ({ st with ref := ref' }, "true")
    else ({ st with ref := ref' }, s!"false want {want}")
  | _ => (st, "bad-op")

def suite : Suite St := { init := {}, step := step }

end ShellOp.Drv.C16
