import ShellOp.Util
import ShellOp.Model.Admission
/-! Line-protocol suite for C14 (admission webhooks). Core-only.

Texts are single tokens: `␣` stands for a blank, `∅` for the empty string.

ops
* `safe <name>`                               → SafeURLString
* `detect <path>`                             → `<configurationId>|<webhookId>`
* `hook <id> <kind>|<name>|<outcome> …`       → `ok`   kind = v|m; outcome = `<exit>:<file>` with
     file = `e` empty · `g` malformed · `a;…`/`d;…` valid allowed/denied with `m=<msg>` `w=<w1>~<w2>` `p=<patch>`
* `req path=<p> body=<ok|garbage|norequest> uid=<u>`  → the answer and who ran (model)
* `oracle req path=… body=… uid=… ans=<answer…>`      → the property on the observed exchange
-/
namespace ShellOp.Drv.C14
open ShellOp ShellOp.Util ShellOp.Admission

def dec (s : String) : String :=
  if s == "∅" then "" else String.ofList (s.toList.map (fun c => if c = '␣' then ' ' else c))

def enc (s : String) : String :=
  if s.isEmpty then "∅" else String.ofList (s.toList.map (fun c => if c = ' ' then '␣' else c))

structure BindingDecl where
  b : Binding
  out : Outcome

structure St where
  hooks : List Hook := []
  outs : List (Nat × Binding × Outcome) := []

def parseFile (s : String) : Option FileContent :=
  match s.splitOn ";" with
  | ["e"] => some .empty
  | ["g"] => some .malformed
  | v :: opts =>
    if v != "a" && v != "d" then none
    else
      let msg := ((kv? "m" opts).map dec).getD ""
      let warns := match kv? "w" opts with
        | some w => (w.splitOn "~").map dec
        | none => []
      let patch := ((kv? "p" opts).map dec).getD ""
      some (.valid ⟨v == "a", msg, warns, patch⟩)
  | _ => none

def parseOutcome (s : String) : Option Outcome :=
  match s.splitOn ":" with
  | code :: rest =>
    match code.toNat?, parseFile (String.intercalate ":" rest) with
    | some c, some f => some ⟨c == 0, f⟩
    | _, _ => none
  | _ => none

def parseBinding (s : String) : Option BindingDecl :=
  match s.splitOn "|" with
  | k :: name :: rest =>
    let kind? : Option Kind := if k == "v" then some .validating else if k == "m" then some .mutating else none
    match kind?, parseOutcome (String.intercalate "|" rest) with
    | some kind, some o => some ⟨⟨kind, (dec name).toList⟩, o⟩
    | _, _ => none
  | _ => none

def runOf (st : St) : Nat → Binding → Outcome := fun h b =>
  match st.outs.find? (fun e => e.1 == h && e.2.1 == b) with
  | some e => e.2.2
  | none => ⟨false, .empty⟩

def showReason : Reason → String
  | .hook m => "hook:" ++ enc m
  | .hookFailed => "hook-failed"
  | .noHook => "no-hook"
  | .propError => "prop-error"

def parseReason (s : String) : Option (Option Reason) :=
  if s == "-" then some none
  else if s.startsWith "hook:" then some (some (.hook (dec (s.drop 5).toString)))
  else match s with
    | "hook-failed" => some (some .hookFailed)
    | "no-hook" => some (some .noHook)
    | "prop-error" => some (some .propError)
    | _ => none

def showRan : Option (Nat × Binding) → String
  | none => "-"
  | some (h, b) => s!"{h}:{enc (String.ofList b.name)}"

def showAnswer (a : Answer) (ran : Option (Nat × Binding)) : String :=
  match a with
  | .http400 => s!"400 ran={showRan ran}"
  | .review r =>
    let ws := if r.warnings.isEmpty then "-" else String.intercalate "~" (r.warnings.map enc)
    let reason := match r.reason with
      | some x => showReason x
      | none => "-"
    s!"review uid={enc r.uid} allowed={showBool r.allowed} code={r.code} reason={reason} warnings={ws} patch={if r.patch.isEmpty then "-" else enc r.patch} ptype={if r.jsonPatchType then "JSONPatch" else "-"} ran={showRan ran}"

def parseRequest (rest : List String) : Option (Str × Request) := do
  let path ← (kv? "path" rest).map (fun p => (dec p).toList)
  let body ← kv? "body" rest
  let uid := ((kv? "uid" rest).map dec).getD ""
  match body with
  | "ok" => some (path, .ok uid)
  | "garbage" => some (path, .garbage)
  | "norequest" => some (path, .noRequest)
  | _ => none

/-- who ran, as observed: hook id and binding name; the kind is the one the hook declared for that
name (mutating wins when the hook declared both, as in the controller's map) -/
def parseRan (st : St) (s : String) : Option (Option (Nat × Binding)) :=
  if s == "-" then some none
  else match s.splitOn ":" with
    | h :: rest =>
      match h.toNat? with
      | none => none
      | some h =>
        let name := (dec (String.intercalate ":" rest)).toList
        let cands := (st.hooks.filter (·.id == h)).flatMap (fun hk => hk.bindings.filter (fun b => b.name == name))
        match cands.find? (·.kind == .mutating), cands.head? with
        | some b, _ => some (some (h, b))
        | none, some b => some (some (h, b))
        | none, none => some (some (h, ⟨.validating, name⟩))   -- not declared anywhere: the check will say so
    | _ => none

def parseObserved (st : St) (rest : List String) : Option (Answer × Option (Nat × Binding)) := do
  let ran ← (kv? "ran" rest).bind (parseRan st)
  match kv? "ans" rest with
  | some "400" => some (.http400, ran)
  | some "review" =>
    let uid ← (kv? "ruid" rest).map dec
    let allowed ← (kv? "allowed" rest).map (· == "true")
    let code ← (kv? "code" rest).bind String.toNat?
    let reason ← (kv? "reason" rest).bind parseReason
    let warnings := match kv? "warnings" rest with
      | some "-" => []
      | some w => (w.splitOn "~").map dec
      | none => []
    let patch := match kv? "patch" rest with
      | some "-" => ""
      | some p => dec p
      | none => ""
    let ptype := (kv? "ptype" rest) == some "JSONPatch"
    some (.review ⟨uid, allowed, code, reason, warnings, patch, ptype⟩, ran)
  | _ => none

def step (st : St) (toks : List String) : St × String :=
  match toks with
  | ["safe", name] => (st, enc (String.ofList (safeURL (dec name).toList)))
  | ["detect", path] =>
    let r := detect (dec path).toList
    (st, enc (String.ofList r.1) ++ "|" ++ enc (String.ofList r.2))
  | "hook" :: id :: bs =>
    match id.toNat?, bs.mapM parseBinding with
    | some id, some decls =>
      ({ hooks := st.hooks ++ [⟨id, decls.map (·.b)⟩],
         outs := st.outs ++ decls.map (fun d => (id, d.b, d.out)) }, "ok")
    | _, _ => (st, "bad-op")
  | "req" :: rest =>
    match parseRequest rest with
    | some (path, req) =>
      let r := respond st.hooks (runOf st) path req
      (st, showAnswer r.1 r.2)
    | none => (st, "bad-op")
  | "oracle" :: "req" :: rest =>
    match parseRequest rest, parseObserved st rest with
    | some (path, req), some (ans, ran) =>
      match checkObs st.hooks (runOf st) path req ans ran with
      | none => (st, "true")
      | some why => (st, "false " ++ why)
    | _, _ => (st, "bad-op")
  | _ => (st, "bad-op")

def suite : Suite St := { init := {}, step := step }

end ShellOp.Drv.C14
