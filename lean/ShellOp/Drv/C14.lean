import ShellOp.Util
import ShellOp.Model.Admission
/-! Line-protocol suite for C14 (admission webhooks). Core-only.

Texts are single tokens: `␣` stands for a blank, `∅` for the empty string.

ops
* `safe <name>`                               → SafeURLString
* `detect <path>`                             → `<configurationId>|<webhookId>`
* `hook <id> <kind>|<name>|<outcome> …`       → `ok`   kind = v|m; outcome = `<ending>[+<others>]:<file>` with
     ending = `<n>` the process exits with status n · `k<n>` signal n terminates it (after it wrote its files),
     optionally `!o` / `!e` / `!oe`: it printed a line on stdout / stderr / both before
     file = `e` empty · `g` malformed · `a;…`/`d;…` valid allowed/denied with `m=<msg>` `w=<w1>~<w2>` `p=<patch>`
     others = `ok…` / `bad…`: the run's metric / object patch operation files can / cannot be applied
* `reqout <uid> <outcome>`                    → `ok`   for the request with that uid the hook does this instead
* `ov hand <uid> path=<p>`                    → `handed` (the request went through HandleAdmissionEvent: its task is
     built, the hook run has not begun) | `answered` (no hook: the request is answered at once)
* `ov prep <uid> path=<p>`                    → `prepared` (Hook.Run wrote the run's files — the binding context file among
     them —, the hook process has not read its binding context yet) | `answered`
* `ov start <uid> path=<p>`                   → `started` (a hook run was prepared and its process runs, started with
     this request) | `handed-another-request` (its process found another request in its binding context) | `answered`
* `ov write <uid>` · `ov exit <uid>`          → `ok`   the overlapping run writes its response file · ends
     (`ov` lines script the interleaving of overlapping requests; the `req` line of such a uid follows later)
* `req path=<p> body=<ok|garbage|norequest> uid=<u>`  → the answer and who ran (model)
* `oracle req path=… body=… uid=… ans=<answer…>`      → the property on the observed exchange
* `oracle handed path=… uid=… name=<object name sent> ghook=<id> gbinding=<name> guid=<uid> gtype=<type> gn=<n>
     gname=<object name>` → the hand-over clause on one observed hook process: the process started for the request
     `uid` to `path` logged that hook / binding / request uid / context type / number of contexts / object name
     (for every request whose hook process can be told: the only one in flight, or scripted)
   the kind token of a `hook` line may carry the binding's optional configuration fields: `m,g=main,fp=Ignore,…`
-/
namespace ShellOp.Drv.C14
open ShellOp ShellOp.Util ShellOp.Admission

def dec (s : String) : String :=
  if s == "∅" then "" else String.ofList (s.toList.map (fun c => if c = '␣' then ' ' else c))

def enc (s : String) : String :=
  if s.isEmpty then "∅" else String.ofList (s.toList.map (fun c => if c = ' ' then '␣' else c))

structure BindingDecl where
  b : Binding
  out : RunDecl

structure St where
  hooks : List Hook := []
  outs : List (Nat × Binding × RunDecl) := []
  reqOuts : List (String × RunDecl) := []
  /-- overlapping runs: uid, run number, hook -/
  runs : List (String × Nat × Nat) := []
  fs : FileSt := .init
  /-- run number → link (hook × binding) number, and the binding contexts of the runs -/
  links : List (Nat × Nat) := []
  cs : CtxSt := .init
  /-- runs whose context file has been prepared -/
  prepared : List Nat := []

def parseFile (s : String) : Option FileContent :=
  match s.splitOn ";" with
  | ["e"] => some .empty
  | ["g"] => some .malformed
  | v :: opts =>
    if v != "a" && v != "d" then none
    else
      let msg := ((kv? "m" opts).map dec).getD ""
      let warns := match kv? "w" opts with
        | some w => (w.splitOn "~").map dec
        | none => []
      let patch := ((kv? "p" opts).map dec).getD ""
      some (.valid ⟨v == "a", msg, warns, patch⟩)
  | _ => none

/-- `<n>` / `k<n>`, optionally followed by `!o`, `!e`, `!oe`: what the process printed on stdout /
stderr before it ended — part of the input, of no consequence for the answer -/
def parseEnding (s : String) : Option Ending :=
  match s.splitOn "!" with
  | [e] | [e, "o"] | [e, "e"] | [e, "oe"] =>
    if e.startsWith "k" then (e.drop 1).toString.toNat?.map .signaled else e.toNat?.map .exited
  | _ => none

def parseOutcome (s : String) : Option RunDecl :=
  match s.splitOn ":" with
  | code :: rest =>
    let (code, others?) : String × Option Bool := match code.splitOn "+" with
      | [c, o] => (c, if o.startsWith "ok" then some true else if o.startsWith "bad" then some false else none)
      | _ => (code, some true)
    match parseEnding code, parseFile (String.intercalate ":" rest), others? with
    | some e, some f, some o => some ⟨e, f, o⟩
    | _, _, _ => none
  | _ => none

/-- the optional fields of a binding's configuration, as generated: part of the input (`g=` group,
`fp=` failurePolicy, `se=` sideEffects, `ts=` timeoutSeconds, `ls=` labelSelector, `ns=` namespace
selector); none of them has a consequence for who is run, what it is handed or what is answered -/
def knownOption (o : String) : Bool :=
  match o.splitOn "=" with
  | [k, v] => ["g", "fp", "se", "ts", "ls", "ns"].contains k && !v.isEmpty
  | _ => false

def parseBinding (s : String) : Option BindingDecl :=
  match s.splitOn "|" with
  | k :: name :: rest =>
    let (k, optsOk) : String × Bool := match k.splitOn "," with
      | k :: opts => (k, opts.all knownOption)
      | [] => (k, false)
    let kind? : Option Kind :=
      if !optsOk then none else if k == "v" then some .validating else if k == "m" then some .mutating else none
    match kind?, parseOutcome (String.intercalate "|" rest) with
    | some kind, some o => some ⟨⟨kind, (dec name).toList⟩, o⟩
    | _, _ => none
  | _ => none

def runOf (st : St) : Nat → Binding → RunDecl := fun h b =>
  match st.outs.find? (fun e => e.1 == h && e.2.1 == b) with
  | some e => e.2.2
  | none => ⟨.exited 1, .empty, true⟩

/-- what the hook was told to do for this request -/
def declaredRun (st : St) (uid : String) : Nat → Binding → RunDecl :=
  match st.reqOuts.find? (fun e => e.1 == uid) with
  | some e => fun _ _ => e.2
  | none => runOf st

def fileName (st : St) : Nat → Nat :=
  responseFileName perRunResponseFile
    (fun r => match st.runs.find? (fun e => e.2.1 == r) with
      | some e => e.2.2
      | none => 0)

/-- what the run for this request leaves behind according to the model of the executor (how the
process ended → did `RunAndLogLines` return an error) and of the response files: as declared,
except that the response file is what `ResponseFromFile` found at the end of the run -/
def effectiveRun (st : St) (uid : String) : Nat → Binding → Outcome :=
  match st.runs.find? (fun e => e.1 == uid) with
  | some e =>
    match st.fs.seen e.2.1 with
    | x :: _ => fun h b => { (declaredRun st uid h b).seen with file := seenFile x }
    | [] => fun h b => (declaredRun st uid h b).seen
  | none => fun h b => (declaredRun st uid h b).seen

def linkNo (st : St) (h : Nat) (b : Binding) : Nat :=
  (st.hooks.flatMap (fun hk => hk.bindings.map (fun x => (hk.id, x)))).idxOf (h, b)

def ctxSlot (st : St) : Nat → Nat :=
  contextSlot perRequestContext
    (fun r => match st.links.find? (fun e => e.1 == r) with
      | some e => e.2
      | none => 0)

def ctxFile (st : St) : Nat → Nat :=
  responseFileName perRunContextFile
    (fun r => match st.runs.find? (fun e => e.2.1 == r) with
      | some e => e.2.2
      | none => 0)

/-- `HandleEvent` for the request `uid` routed to `(h, b)` (unless it went through it before): a new
run, its context handed over -/
def handOver (st : St) (uid : String) (h : Nat) (b : Binding) : St × Nat :=
  match st.runs.find? (fun e => e.1 == uid) with
  | some e => (st, e.2.1)
  | none =>
    let n := st.runs.length + 1
    let st := { st with runs := st.runs ++ [(uid, n, h)], links := st.links ++ [(n, linkNo st h b)] }
    ({ st with cs := ctxStep (ctxSlot st) (ctxFile st) st.cs (.hand n ⟨h, b, uid⟩) }, n)

/-- `prepareBindingContextJsonFile` of run `n` (unless done before) -/
def prepareCtx (st : St) (n : Nat) : St :=
  if st.prepared.contains n then st
  else { st with cs := ctxStep (ctxSlot st) (ctxFile st) st.cs (.prepare n), prepared := n :: st.prepared }

def uidOf : Request → String
  | .ok uid => uid
  | _ => ""

def showReason : Reason → String
  | .hook m => "hook:" ++ enc m
  | .hookFailed => "hook-failed"
  | .noHook => "no-hook"
  | .propError => "prop-error"

def parseReason (s : String) : Option (Option Reason) :=
  if s == "-" then some none
  else if s.startsWith "hook:" then some (some (.hook (dec (s.drop 5).toString)))
  else match s with
    | "hook-failed" => some (some .hookFailed)
    | "no-hook" => some (some .noHook)
    | "prop-error" => some (some .propError)
    | _ => none

def showRan : Option (Nat × Binding) → String
  | none => "-"
  | some (h, b) => s!"{h}:{enc (String.ofList b.name)}"

def showAnswer (a : Answer) (ran : Option (Nat × Binding)) : String :=
  match a with
  | .http400 => s!"400 ran={showRan ran}"
  | .review r =>
    let ws := if r.warnings.isEmpty then "-" else String.intercalate "~" (r.warnings.map enc)
    let reason := match r.reason with
      | some x => showReason x
      | none => "-"
    s!"review uid={enc r.uid} allowed={showBool r.allowed} code={r.code} reason={reason} warnings={ws} patch={if r.patch.isEmpty then "-" else enc r.patch} ptype={if r.jsonPatchType then "JSONPatch" else "-"} ran={showRan ran}"

def parseRequest (rest : List String) : Option (Str × Request) := do
  let path ← (kv? "path" rest).map (fun p => (dec p).toList)
  let body ← kv? "body" rest
  let uid := ((kv? "uid" rest).map dec).getD ""
  match body with
  | "ok" => some (path, .ok uid)
  | "garbage" => some (path, .garbage)
  | "norequest" => some (path, .noRequest)
  | _ => none

/-- who ran, as observed: hook id and binding name; the kind is the one the hook declared for that
name (mutating wins when the hook declared both, as in the controller's map) -/
def parseRan (st : St) (s : String) : Option (Option (Nat × Binding)) :=
  if s == "-" then some none
  else match s.splitOn ":" with
    | h :: rest =>
      match h.toNat? with
      | none => none
      | some h =>
        let name := (dec (String.intercalate ":" rest)).toList
        let cands := (st.hooks.filter (·.id == h)).flatMap (fun hk => hk.bindings.filter (fun b => b.name == name))
        match cands.find? (·.kind == .mutating), cands.head? with
        | some b, _ => some (some (h, b))
        | none, some b => some (some (h, b))
        | none, none => some (some (h, ⟨.validating, name⟩))   -- not declared anywhere: the check will say so
    | _ => none

def parseObserved (st : St) (rest : List String) : Option (Answer × Option (Nat × Binding)) := do
  let ran ← (kv? "ran" rest).bind (parseRan st)
  match kv? "ans" rest with
  | some "400" => some (.http400, ran)
  | some "review" =>
    let uid ← (kv? "ruid" rest).map dec
    let allowed ← (kv? "allowed" rest).map (· == "true")
    let code ← (kv? "code" rest).bind String.toNat?
    let reason ← (kv? "reason" rest).bind parseReason
    let warnings := match kv? "warnings" rest with
      | some "-" => []
      | some w => (w.splitOn "~").map dec
      | none => []
    let patch := match kv? "patch" rest with
      | some "-" => ""
      | some p => dec p
      | none => ""
    let ptype := (kv? "ptype" rest) == some "JSONPatch"
    some (.review ⟨uid, allowed, code, reason, warnings, patch, ptype⟩, ran)
  | _ => none

def step (st : St) (toks : List String) : St × String :=
  match toks with
  | ["safe", name] => (st, enc (String.ofList (safeURL (dec name).toList)))
  | ["detect", path] =>
    let r := detect (dec path).toList
    (st, enc (String.ofList r.1) ++ "|" ++ enc (String.ofList r.2))
  | "hook" :: id :: bs =>
    match id.toNat?, bs.mapM parseBinding with
    | some id, some decls =>
      ({ hooks := st.hooks ++ [⟨id, decls.map (·.b)⟩],
         outs := st.outs ++ decls.map (fun d => (id, d.b, d.out)) }, "ok")
    | _, _ => (st, "bad-op")
  | ["reqout", uid, out] =>
    match parseOutcome out with
    | some o => ({ st with reqOuts := st.reqOuts ++ [(dec uid, o)] }, "ok")
    | none => (st, "bad-op")
  | ["ov", "hand", uid, p] =>
    match kv? "path" [p] with
    | none => (st, "bad-op")
    | some p =>
      let path := (dec p).toList
      match route st.hooks (detect path).1 (detect path).2 with
      | none => (st, "answered")
      | some (h, b) => ((handOver st (dec uid) h b).1, "handed")
  | ["ov", "prep", uid, p] =>
    match kv? "path" [p] with
    | none => (st, "bad-op")
    | some p =>
      let path := (dec p).toList
      match route st.hooks (detect path).1 (detect path).2 with
      | none => (st, "answered")
      | some (h, b) =>
        let (st, n) := handOver st (dec uid) h b
        (prepareCtx st n, "prepared")
  | ["ov", "start", uid, p] =>
    match kv? "path" [p] with
    | none => (st, "bad-op")
    | some p =>
      let path := (dec p).toList
      match route st.hooks (detect path).1 (detect path).2 with
      | none => (st, "answered")
      | some (h, b) =>
        -- handed over and prepared before (`ov hand`, `ov prep`), or now
        let (st, n) := handOver st (dec uid) h b
        let st := prepareCtx st n
        let st := { st with cs := ctxStep (ctxSlot st) (ctxFile st) st.cs (.start n) }
        let st := { st with fs := fileStep (fileName st) st.fs (.prepare n) }
        if (st.cs.given n).getLast? == some (some ⟨h, b, dec uid⟩) then (st, "started")
        else (st, "handed-another-request")
  | ["ov", "write", uid] =>
    match st.runs.find? (fun e => e.1 == dec uid) with
    | none => (st, "ok")
    | some e =>
      -- an `empty` outcome is a hook that does not touch the file
      match (declaredRun st (dec uid) e.2.2 ⟨.validating, []⟩).file with
      | .empty => (st, "ok")
      | c => ({ st with fs := fileStep (fileName st) st.fs (.write e.2.1 c) }, "ok")
  | ["ov", "exit", uid] =>
    match st.runs.find? (fun e => e.1 == dec uid) with
    | none => (st, "ok")
    | some e => ({ st with fs := fileStep (fileName st) st.fs (.finish e.2.1) }, "ok")
  | "req" :: rest =>
    match parseRequest rest with
    | some (path, req) =>
      let r := respond st.hooks (effectiveRun st (uidOf req)) path req
      (st, showAnswer r.1 r.2)
    | none => (st, "bad-op")
  | "oracle" :: "req" :: rest =>
    match parseRequest rest, parseObserved st rest with
    | some (path, req), some (ans, ran) =>
      -- the property reads the run as declared: did the process exit, with status 0
      match checkObs st.hooks (fun h b => (declaredRun st (uidOf req) h b).spec) path req ans ran with
      | none => (st, "true")
      | some why => (st, "false " ++ why)
    | _, _ => (st, "bad-op")
  | "oracle" :: "handed" :: rest =>
    match kv? "path" rest, kv? "uid" rest, kv? "ghook" rest, kv? "gbinding" rest, kv? "guid" rest with
    | some p, some uid, some gh, some gb, some gu =>
      match parseRan st (gh ++ ":" ++ gb), kv? "name" rest, kv? "gtype" rest, (kv? "gn" rest).bind String.toNat?,
          kv? "gname" rest with
      | some (some (h, b)), some name, some gt, some gn, some gname =>
        match checkHandedCtx st.hooks (dec p).toList (dec uid) (dec name) ⟨h, b, dec gu⟩ (dec gt) gn (dec gname) with
        | none => (st, "true")
        | some why => (st, "false " ++ why)
      | _, _, _, _, _ => (st, "bad-op")
    | _, _, _, _, _ => (st, "bad-op")
  | _ => (st, "bad-op")

def suite : Suite St := { init := {}, step := step }

end ShellOp.Drv.C14
