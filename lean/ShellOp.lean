-- Root of the `ShellOp` library: models, proofs, property theorems.
import ShellOp.Util
