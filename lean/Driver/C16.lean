import ShellOp.Drv.C16
def main : IO Unit := ShellOp.Drv.C16.suite.main
