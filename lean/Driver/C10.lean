import ShellOp.Drv.C10
def main : IO Unit := ShellOp.Drv.C10.suite.main
