import ShellOp.Drv.C20
def main : IO Unit := ShellOp.Drv.C20.suite.main
