import ShellOp.Drv.C17
def main : IO Unit := ShellOp.Drv.C17.suite.main
