-- stub: suite not built yet
def main : IO Unit := pure ()
