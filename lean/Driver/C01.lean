import ShellOp.Drv.C01
def main : IO Unit := ShellOp.Drv.C01.suite.main
