import ShellOp.Drv.C19
def main : IO Unit := ShellOp.Drv.C19.suite.main
