import ShellOp.Drv.C12
def main : IO Unit := ShellOp.Drv.C12.suite.main
