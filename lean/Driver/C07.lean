import ShellOp.Drv.C07
def main : IO Unit := ShellOp.Drv.C07.suite.main
