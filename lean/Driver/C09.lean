import ShellOp.Drv.C09
def main : IO Unit := ShellOp.Drv.C09.suite.main
