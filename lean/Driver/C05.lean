import ShellOp.Drv.C05
def main : IO Unit := ShellOp.Drv.C05.suite.main
