import ShellOp.Drv.C18
def main : IO Unit := ShellOp.Drv.C18.suite.main
