import ShellOp.Drv.C13
def main : IO Unit := ShellOp.Drv.C13.suite.main
