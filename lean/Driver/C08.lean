import ShellOp.Drv.C08
def main : IO Unit := ShellOp.Drv.C08.suite.main
