import ShellOp.Drv.C02
def main : IO Unit := ShellOp.Drv.C02.suite.main
