import ShellOp.Drv.C04
def main : IO Unit := ShellOp.Drv.C04.suite.main
