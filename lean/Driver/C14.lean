import ShellOp.Drv.C14
def main : IO Unit := ShellOp.Drv.C14.suite.main
