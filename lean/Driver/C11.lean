import ShellOp.Drv.C11
def main : IO Unit := ShellOp.Drv.C11.suite.main
