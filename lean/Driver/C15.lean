import ShellOp.Drv.C15
def main : IO Unit := ShellOp.Drv.C15.suite.main
