import ShellOp.Drv.C06
def main : IO Unit := ShellOp.Drv.C06.suite.main
