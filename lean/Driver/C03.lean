import ShellOp.Drv.C03
def main : IO Unit := ShellOp.Drv.C03.suite.main
