#!/bin/bash
# Build the framework from files on disk only (offline). Run once in /verif after a fresh restore.
set -e
cd "$(dirname "$0")"
export GOFLAGS=-mod=mod GOPROXY=off
unset GOTOOLCHAIN GOSUMDB 2>/dev/null || true
mkdir -p .build evidence replays lean/ShellOp/Generated
( cd extract && go build -o ../.build/extract . )
./.build/extract --repo /repo --facts lean/ShellOp/Generated/Facts.lean --skeletons .build/skeleton-setup >/dev/null 2>&1 || { mkdir -p .build/skeleton-setup; ./.build/extract --repo /repo --facts lean/ShellOp/Generated/Facts.lean --skeletons .build/skeleton-setup; }
( cd lean && lake build )
cp /repo/go.sum harness/go.sum
( cd harness && go build -tags verif -o ../.build/harness . )
echo setup-ok
