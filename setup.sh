#!/bin/bash
# Build the framework from files on disk only (offline). Run once in /verif after a fresh restore.
set -e
cd "$(dirname "$0")"
export GOFLAGS=-mod=mod GOPROXY=off
unset GOTOOLCHAIN GOSUMDB 2>/dev/null || true
REPO="${VERIF_REPO:-/repo}"
mkdir -p .build evidence replays lean/ShellOp/Generated
( cd extract && go build -o ../.build/extract . )
./.build/extract --repo "$REPO" --facts lean/ShellOp/Generated/Facts.lean --trans lean/ShellOp/Generated/Trans.lean --skeletons .build/skeleton-setup >/dev/null 2>&1 || { mkdir -p .build/skeleton-setup; ./.build/extract --repo "$REPO" --facts lean/ShellOp/Generated/Facts.lean --trans lean/ShellOp/Generated/Trans.lean --skeletons .build/skeleton-setup; }
( cd lean && lake build )
sed "s#=> /repo#=> $REPO#" harness/go.mod > .build/harness.mod
cp "$REPO/go.sum" .build/harness.sum
( cd harness && go build -modfile ../.build/harness.mod -tags verif -o ../.build/harness . )
echo setup-ok
